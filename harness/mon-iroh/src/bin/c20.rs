//! C20 — the endpoint builder accepts bind addresses independent of their order.
//!
//! Public API only: every sequence of requests is fed to a fresh
//! `iroh::endpoint::Builder` through `bind_addr_with_opts`; a sequence is *accepted* when
//! every call returned `Ok`.  Oracle (from the statement): a multiset of requests is
//! rejected exactly when some address family has more than one request that is a default
//! route (explicit flag, or implicit through prefix length 0 without an explicit `false`)
//! or some prefix length is invalid for its family (> 32 for IPv4, > 128 for IPv6).
//! In particular all orders of the same multiset must agree.  Which error is reported for
//! a set that is invalid for both reasons is left open.  No socket is ever bound.

use std::{
    collections::BTreeMap,
    net::{Ipv4Addr, Ipv6Addr, SocketAddr, SocketAddrV4, SocketAddrV6},
    sync::Mutex,
};

use common::{Report, Rng, args, catch};
use iroh::endpoint::{BindOpts, Builder, presets};
use serde_json::{Value, json};

/// One bind request of the catalogue.
#[derive(Clone, Copy, Debug, PartialEq, Eq, PartialOrd, Ord, Hash)]
struct Req {
    v6: bool,
    prefix: u8,
    /// 0 = default flag unset, 1 = Some(true), 2 = Some(false)
    flag: u8,
    /// distinguishes the host part so that several sockets of one family differ
    host: u8,
}

impl Req {
    fn is_default(&self) -> bool {
        match self.flag {
            1 => true,
            2 => false,
            _ => self.prefix == 0,
        }
    }
    fn prefix_valid(&self) -> bool {
        self.prefix <= if self.v6 { 128 } else { 32 }
    }
    fn addr(&self) -> SocketAddr {
        if self.v6 {
            SocketAddr::V6(SocketAddrV6::new(
                Ipv6Addr::new(0xfd00, 0, 0, self.host as u16, 0, 0, 0, 1),
                0,
                0,
                0,
            ))
        } else {
            SocketAddr::V4(SocketAddrV4::new(Ipv4Addr::new(127, 0, self.host, 1), 0))
        }
    }
    fn opts(&self) -> BindOpts {
        let o = BindOpts::default().set_prefix_len(self.prefix);
        match self.flag {
            1 => o.set_is_default_route(true),
            2 => o.set_is_default_route(false),
            _ => o,
        }
    }
    fn to_json(self) -> Value {
        let flag = ["unset", "true", "false"][self.flag as usize];
        json!({"v6": self.v6, "prefix": self.prefix, "flag": flag, "host": self.host})
    }
    fn from_json(v: &Value) -> Req {
        Req {
            v6: v["v6"].as_bool().unwrap(),
            prefix: v["prefix"].as_u64().unwrap() as u8,
            flag: match v["flag"].as_str().unwrap() {
                "true" => 1,
                "false" => 2,
                _ => 0,
            },
            host: v["host"].as_u64().unwrap_or(0) as u8,
        }
    }
    fn class(&self) -> String {
        format!(
            "{}/{}{}",
            if self.v6 { "v6" } else { "v4" },
            self.prefix,
            ["", "+default", "+nodefault"][self.flag as usize]
        )
    }
}

fn expected_accept(seq: &[Req]) -> (bool, &'static str) {
    let dup4 = seq.iter().filter(|r| !r.v6 && r.is_default()).count() > 1;
    let dup6 = seq.iter().filter(|r| r.v6 && r.is_default()).count() > 1;
    let badp = seq.iter().any(|r| !r.prefix_valid());
    match (dup4 || dup6, badp) {
        (false, false) => (true, "valid"),
        (true, false) => (false, "two-defaults"),
        (false, true) => (false, "invalid-prefix"),
        (true, true) => (false, "two-defaults+invalid-prefix"),
    }
}

/// Which builder the requests are applied to (the statement is about the requests; the
/// pre-configured wildcard sockets are not user requests).
#[derive(Clone, Copy, Debug, PartialEq, Eq)]
enum Base {
    Empty,
    EmptyCleared,
    Minimal,
}

fn new_builder(base: Base) -> Builder {
    match base {
        Base::Empty => Builder::empty(),
        Base::EmptyCleared => Builder::empty().clear_ip_transports(),
        Base::Minimal => Builder::new(presets::Minimal),
    }
}

/// Runs the sequence; returns Ok(()) if every call was accepted, else (index, error text).
fn run_seq(base: Base, seq: &[Req]) -> Result<Result<(), (usize, String)>, String> {
    catch(|| {
        let mut b = new_builder(base);
        for (i, r) in seq.iter().enumerate() {
            match b.bind_addr_with_opts(r.addr(), r.opts()) {
                Ok(nb) => b = nb,
                Err(e) => return Err((i, format!("{e}"))),
            }
        }
        Ok(())
    })
}

struct Mon<'a> {
    rep: &'a Report,
    /// multiset (sorted requests, host erased) -> (accepted, one order) for the order check
    seen: Mutex<BTreeMap<Vec<(bool, u8, u8)>, (bool, Vec<Req>)>>,
}

impl Mon<'_> {
    fn check(&self, base: Base, seq: &[Req]) {
        let rep = self.rep;
        rep.eval();
        let replay = json!({"base": format!("{base:?}"), "requests": seq.iter().map(|r| r.to_json()).collect::<Vec<_>>()});
        let got = match run_seq(base, seq) {
            Ok(g) => g,
            Err(p) => {
                rep.violation(&format!("C20:panic@{}", common::short_loc(&p)), p, replay);
                return;
            }
        };
        let (want, why) = expected_accept(seq);
        rep.count(&format!("expected.{why}"), 1);
        rep.count(if got.is_ok() { "observed.accepted" } else { "observed.rejected" }, 1);
        if let Err((_, e)) = &got {
            rep.count(&format!("observed.error.{}", if e.contains("prefix") { "InvalidPrefixLength" } else if e.contains("default") { "DuplicateDefaultAddr" } else { "other" }), 1);
        }
        match (&got, want) {
            (Ok(()), true) | (Err(_), false) => {}
            (Ok(()), false) => {
                rep.violation(
                    &format!("C20:accepted-set-with-{why}"),
                    format!("all {} requests accepted: {}", seq.len(), seq.iter().map(|r| r.class()).collect::<Vec<_>>().join(", ")),
                    replay.clone(),
                );
            }
            (Err((i, e)), true) => {
                // name the shape: what was the rejected request, and what preceded it
                let r = seq[*i];
                let earlier_default = seq[..*i].iter().any(|p| p.v6 == r.v6 && p.is_default());
                let shape = if e.contains("default") && !r.is_default() && earlier_default {
                    "non-default-after-default".to_string()
                } else if e.contains("default") {
                    format!("duplicate-default-error-on-{}-request", if r.is_default() { "single-default" } else { "non-default" })
                } else if e.contains("prefix") {
                    format!("valid-prefix-rejected-{}", if r.v6 { "v6" } else { "v4" })
                } else {
                    "other-error".to_string()
                };
                rep.violation(
                    &format!("C20:valid-set-rejected({shape})"),
                    format!("request #{i} ({}) rejected with \"{e}\" in sequence: {}", r.class(), seq.iter().map(|r| r.class()).collect::<Vec<_>>().join(", ")),
                    replay.clone(),
                );
            }
        }
        // order independence, checked directly on the observations (independent of the predicate)
        if base == Base::Empty {
            let mut key: Vec<(bool, u8, u8)> = seq.iter().map(|r| (r.v6, r.prefix, r.flag)).collect();
            key.sort();
            let mut seen = self.seen.lock().unwrap();
            match seen.get(&key) {
                None => {
                    seen.insert(key, (got.is_ok(), seq.to_vec()));
                }
                Some((acc, other)) => {
                    if other.iter().map(|r| (r.v6, r.prefix, r.flag)).ne(seq.iter().map(|r| (r.v6, r.prefix, r.flag))) {
                        rep.count("order_pairs_compared", 1);
                        if seq.len() >= 2 {
                            let mut canon = Vec::new();
                            for r in seq {
                                canon.extend_from_slice(&[r.v6 as u8, r.prefix, r.flag]);
                            }
                            rep.nontrivial(&canon);
                        }
                        if *acc != got.is_ok() {
                            let (acc_seq, rej_seq) = if *acc { (other.as_slice(), seq) } else { (seq, other.as_slice()) };
                            // shape of the order dependence: does the rejected order put a non-default behind a default?
                            let rej_has_nd_after_d = (0..rej_seq.len()).any(|i| !rej_seq[i].is_default() && rej_seq[..i].iter().any(|p| p.v6 == rej_seq[i].v6 && p.is_default()));
                            let sig = if want && rej_has_nd_after_d { "C20:order-dependent(non-default-after-default)" } else { "C20:order-dependent" };
                            rep.violation(
                                sig,
                                format!(
                                    "accepted as [{}] but rejected as [{}]",
                                    acc_seq.iter().map(|r| r.class()).collect::<Vec<_>>().join(", "),
                                    rej_seq.iter().map(|r| r.class()).collect::<Vec<_>>().join(", ")
                                ),
                                json!({"base": "Empty", "requests": rej_seq.iter().map(|r| r.to_json()).collect::<Vec<_>>(), "accepted_order": acc_seq.iter().map(|r| r.to_json()).collect::<Vec<_>>()}),
                            );
                        }
                    }
                }
            }
        }
        if rep.want_sample() && seq.len() >= 3 {
            rep.sample(json!({"requests": seq.iter().map(|r| r.class()).collect::<Vec<_>>(), "accepted": got.is_ok(), "expected_accepted": want}));
        }
    }
}

fn catalogue() -> Vec<Req> {
    // family x prefix class {0, 8, 24, max, max+1} x default flag {unset, true, false}
    let mut v = Vec::new();
    for v6 in [false, true] {
        let max = if v6 { 128u8 } else { 32 };
        for prefix in [0u8, 8, 24, max, max + 1] {
            for flag in 0..3u8 {
                v.push(Req { v6, prefix, flag, host: 0 });
            }
        }
    }
    v
}

/// Gives the i-th request of a sequence its own host part.
fn with_hosts(seq: &[Req]) -> Vec<Req> {
    seq.iter().enumerate().map(|(i, r)| Req { host: i as u8 + 1, ..*r }).collect()
}

fn main() {
    let a = args();
    let rep = Report::new(
        "C20",
        "sequences of <= 4 bind requests from the catalogue family{v4,v6} x prefix{0,8,24,max,max+1} x default flag{unset,true,false} (30 requests), all orders; non-trivial = distinct sequence of >= 2 requests whose outcome was compared with another order of the same multiset",
        &a,
    );
    let mon = Mon { rep: &rep, seen: Mutex::new(BTreeMap::new()) };
    if let Some(p) = &a.replay {
        let v: Value = serde_json::from_str(&std::fs::read_to_string(p).unwrap()).unwrap();
        let r = &v["replay"];
        let base = match r["base"].as_str().unwrap_or("Empty") {
            "EmptyCleared" => Base::EmptyCleared,
            "Minimal" => Base::Minimal,
            _ => Base::Empty,
        };
        let seq: Vec<Req> = r["requests"].as_array().unwrap().iter().map(Req::from_json).collect();
        mon.check(base, &seq);
        if let Some(o) = r["accepted_order"].as_array() {
            let seq: Vec<Req> = o.iter().map(Req::from_json).collect();
            mon.check(base, &seq);
        }
        rep.finish();
        return;
    }
    let cat = catalogue();
    let n = cat.len();
    let full_len = a.pick(3usize, 4usize);
    // exhaustive: every sequence (= every multiset in every order) up to full_len
    let mut idx: Vec<usize> = Vec::new();
    fn rec(mon: &Mon<'_>, cat: &[Req], idx: &mut Vec<usize>, max: usize) {
        if !idx.is_empty() {
            let seq: Vec<Req> = idx.iter().map(|i| cat[*i]).collect();
            mon.check(Base::Empty, &with_hosts(&seq));
        }
        if idx.len() == max {
            return;
        }
        for i in 0..cat.len() {
            idx.push(i);
            rec(mon, cat, idx, max);
            idx.pop();
        }
    }
    rec(&mon, &cat, &mut idx, full_len);
    rep.set_extra(
        "exhaustive_part",
        json!({"catalogue": n, "max_len": full_len, "sequences": (1..=full_len).map(|l| n.pow(l as u32)).sum::<usize>(), "complete": true}),
    );
    rep.set_exhaustive(!a.quick());
    // random part: length-4 sequences (quick) and other builder bases / arbitrary prefixes / same host
    let mut rng = Rng::derive(a.seed, "C20", 0);
    let n_random = a.pick(150_000, 3_000_000);
    for k in 0..n_random {
        let len = if a.quick() { 4 } else { rng.range(2, 6) as usize };
        let mut seq: Vec<Req> = (0..len).map(|_| *rng.pick(&cat)).collect();
        let base = match k % 4 {
            0 => Base::Empty,
            1 => Base::EmptyCleared,
            2 => Base::Minimal,
            _ => Base::Empty,
        };
        if k % 4 == 3 {
            // arbitrary prefix lengths, possibly the same host for several requests
            for r in seq.iter_mut() {
                r.prefix = rng.below(256) as u8;
                r.host = rng.below(3) as u8;
            }
            mon.check(base, &seq);
        } else {
            mon.check(base, &with_hosts(&seq));
        }
    }
    rep.require("order_pairs_compared", 1000);
    rep.require("expected.valid", 1000);
    rep.require("expected.two-defaults", 1000);
    rep.require("expected.invalid-prefix", 1000);
    rep.finish();
}
