//! Shared machinery for the runtime monitors: seeded RNG, result/evidence report,
//! panic capture, event log and gate controller for the `verif-hooks` pause points.

pub mod gate;
pub mod report;
pub mod rng;

pub use report::{Report, Tier, args, Args};
pub use rng::Rng;

use std::{
    panic::{self, AssertUnwindSafe},
    sync::{Mutex, Once},
};

static PANIC_MSG: Mutex<Option<String>> = Mutex::new(None);
static HOOK: Once = Once::new();

thread_local! {
    static CAPTURING: std::cell::Cell<bool> = const { std::cell::Cell::new(false) };
}

/// Installs a panic hook that records `message @ file:line` for panics raised inside
/// [`catch`] and stays quiet for them; other panics are printed as usual.
pub fn install_panic_capture() {
    HOOK.call_once(|| {
        let prev = panic::take_hook();
        panic::set_hook(Box::new(move |info| {
            let capturing = CAPTURING.with(|c| c.get());
            let msg = if let Some(s) = info.payload().downcast_ref::<&str>() {
                s.to_string()
            } else if let Some(s) = info.payload().downcast_ref::<String>() {
                s.clone()
            } else {
                "<non-string panic>".to_string()
            };
            let loc = info
                .location()
                .map(|l| format!("{}:{}", l.file(), l.line()))
                .unwrap_or_default();
            if capturing {
                *PANIC_MSG.lock().unwrap_or_else(|e| e.into_inner()) =
                    Some(format!("{msg} @ {loc}"));
            } else {
                prev(info);
            }
        }));
    });
}

/// Runs `f`, turning a panic into `Err("message @ file:line")`.
pub fn catch<T>(f: impl FnOnce() -> T) -> Result<T, String> {
    install_panic_capture();
    CAPTURING.with(|c| c.set(true));
    let r = panic::catch_unwind(AssertUnwindSafe(f));
    CAPTURING.with(|c| c.set(false));
    match r {
        Ok(v) => Ok(v),
        Err(_) => Err(PANIC_MSG
            .lock()
            .unwrap_or_else(|e| e.into_inner())
            .take()
            .unwrap_or_else(|| "<panic>".into())),
    }
}

/// Strips the leading path up to the crate directory so that panic locations are stable
/// signatures ("iroh-dns/src/dns.rs:978").
pub fn short_loc(s: &str) -> String {
    for c in ["iroh-dns-server/", "iroh-relay/", "iroh-base/", "iroh-dns/", "iroh/"] {
        if let Some(i) = s.find(c) {
            return s[i..].to_string();
        }
    }
    s.to_string()
}

/// FNV-1a 64 hash for canonicalised cases (stable across runs, unlike `DefaultHasher`
/// with random keys).
pub fn fnv(bytes: &[u8]) -> u64 {
    let mut h: u64 = 0xcbf29ce484222325;
    for b in bytes {
        h ^= *b as u64;
        h = h.wrapping_mul(0x100000001b3);
    }
    h
}

pub fn hex(b: &[u8]) -> String {
    let mut s = String::with_capacity(b.len() * 2);
    for x in b {
        s.push_str(&format!("{x:02x}"));
    }
    s
}
