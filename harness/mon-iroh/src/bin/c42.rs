//! C42 — connection hooks and connect preconditions gate every connection.
//!
//! Real loopback endpoint pairs, each side with a list of 0-3 `EndpointHooks` whose
//! verdicts follow seeded per-call patterns and which log every invocation (tagged with
//! the attempt's unique ALPN, so that observations are attributed to attempts by ALPN, not
//! by time).  Both sides run an accept loop that logs every `Incoming` (with the ALPNs of
//! its ClientHello), every accept result and the close reason of every established
//! connection.
//!
//! Oracle (from the statement):
//!  * a side that had a hook reject never obtains a `Connection` from connect/accept;
//!    a side obtains one only after *all* of its hooks were asked and accepted;
//!  * after a rejection no later hook of that hook point is invoked for the attempt;
//!  * after a `before_connect` rejection: connect fails, no `Incoming` offering the
//!    attempt's ALPN is ever seen by the peer, no `after_handshake` hook runs;
//!  * after an `after_handshake` rejection on exactly one side the other side observes an
//!    application close carrying exactly the hook's error code and reason (a transport
//!    level failure instead = inconclusive, a different application code = violation);
//!  * dialing one's own id (with the peer's or the own address) or an empty ALPN (alone or
//!    with additional ALPNs) fails, whatever the hooks say.

#[path = "../epkit.rs"]
mod epkit;

use std::{
    sync::{
        Arc, Mutex,
        atomic::{AtomicUsize, Ordering::SeqCst},
    },
    time::Duration,
};

use common::{Report, Rng, args, short_loc};
use iroh::{
    Endpoint, EndpointAddr,
    endpoint::{
        AfterHandshakeOutcome, BeforeConnectOutcome, ConnectError, ConnectOptions,
        ConnectWithOptsError, ConnectingError, Connection, ConnectionError, EndpointHooks, VarInt,
    },
};
use serde_json::{Value, json};
use tokio::sync::Semaphore;

const BUDGET: Duration = Duration::from_secs(20);
const DONE_CODE: u32 = 7;

#[derive(Clone, Debug, PartialEq, Eq)]
enum Seen {
    App(u64, Vec<u8>),
    Local,
    Timeout,
    Transport(String),
    LocallyRejected,
    SelfConnect,
    InvalidAlpn,
    Other(String),
}

impl Seen {
    fn json(&self) -> Value {
        match self {
            Seen::App(c, r) => json!({"app_close": c, "reason": String::from_utf8_lossy(r)}),
            other => json!(format!("{other:?}")),
        }
    }
}

fn seen_conn(e: &ConnectionError) -> Seen {
    match e {
        ConnectionError::ApplicationClosed(a) => Seen::App(a.error_code.into_inner(), a.reason.to_vec()),
        ConnectionError::LocallyClosed => Seen::Local,
        ConnectionError::TimedOut => Seen::Timeout,
        other => Seen::Transport(format!("{other}")),
    }
}

fn seen_connecting(e: &ConnectingError) -> Seen {
    match e {
        ConnectingError::ConnectionError { source, .. } => seen_conn(source),
        ConnectingError::LocallyRejected { .. } => Seen::LocallyRejected,
        other => Seen::Other(format!("{other:#}")),
    }
}

fn seen_opts(e: &ConnectWithOptsError) -> Seen {
    match e {
        ConnectWithOptsError::LocallyRejected { .. } => Seen::LocallyRejected,
        ConnectWithOptsError::SelfConnect { .. } => Seen::SelfConnect,
        ConnectWithOptsError::InvalidAlpn { .. } => Seen::InvalidAlpn,
        other => Seen::Other(format!("{other:#}")),
    }
}

fn seen_connect(e: &ConnectError) -> Seen {
    match e {
        ConnectError::Connect { source, .. } => seen_opts(source),
        ConnectError::Connecting { source, .. } => seen_connecting(source),
        ConnectError::Connection { source, .. } => seen_conn(source),
        other => Seen::Other(format!("{other:#}")),
    }
}

#[derive(Clone, Debug)]
enum Ev {
    Hook { ep: usize, idx: usize, before: bool, alpn: Vec<u8>, accept: bool },
    Incoming { ep: usize, alpns: Option<Vec<Vec<u8>>> },
    AcceptOk { ep: usize, alpn: Vec<u8> },
    AcceptErr { ep: usize, alpn: Option<Vec<u8>>, seen: Seen },
    AcceptClosed { ep: usize, alpn: Vec<u8>, seen: Seen },
    /// informational (counted, not judged)
    Note { what: &'static str },
}

type Log = Arc<Mutex<Vec<Ev>>>;

#[derive(Clone, Debug)]
struct HookSpec {
    before: Vec<bool>,
    /// None = accept, Some = reject
    after: Vec<bool>,
    delay_ms: u64,
}

#[derive(Debug)]
struct PatHook {
    ep: usize,
    idx: usize,
    spec: HookSpec,
    nb: AtomicUsize,
    na: AtomicUsize,
    log: Log,
}

fn hook_code(ep: usize, idx: usize) -> (u32, Vec<u8>) {
    (100 + (ep as u32) * 10 + idx as u32, format!("c42-hook-{ep}-{idx}").into_bytes())
}

impl EndpointHooks for PatHook {
    async fn before_connect<'a>(&'a self, _remote: &'a EndpointAddr, alpn: &'a [u8]) -> BeforeConnectOutcome {
        let i = self.nb.fetch_add(1, SeqCst);
        let accept = self.spec.before[i % self.spec.before.len()];
        self.log.lock().unwrap().push(Ev::Hook { ep: self.ep, idx: self.idx, before: true, alpn: alpn.to_vec(), accept });
        if self.spec.delay_ms > 0 {
            tokio::time::sleep(Duration::from_millis(self.spec.delay_ms)).await;
        } else {
            tokio::task::yield_now().await;
        }
        if accept { BeforeConnectOutcome::Accept } else { BeforeConnectOutcome::Reject }
    }

    async fn after_handshake<'a>(&'a self, conn: &'a Connection) -> AfterHandshakeOutcome {
        let i = self.na.fetch_add(1, SeqCst);
        let accept = self.spec.after[i % self.spec.after.len()];
        self.log.lock().unwrap().push(Ev::Hook { ep: self.ep, idx: self.idx, before: false, alpn: conn.alpn().to_vec(), accept });
        if self.spec.delay_ms > 0 {
            tokio::time::sleep(Duration::from_millis(self.spec.delay_ms)).await;
        } else {
            tokio::task::yield_now().await;
        }
        if accept {
            AfterHandshakeOutcome::Accept
        } else {
            let (code, reason) = hook_code(self.ep, self.idx);
            AfterHandshakeOutcome::Reject { error_code: VarInt::from_u32(code), reason }
        }
    }
}

#[derive(Clone, Copy, Debug, PartialEq, Eq)]
enum Kind {
    Normal,
    SelfIdPeerAddr,
    SelfIdOwnAddr,
    EmptyAlpn,
    EmptyAlpnWithAdditional,
}

impl Kind {
    fn name(self) -> &'static str {
        match self {
            Kind::Normal => "normal",
            Kind::SelfIdPeerAddr => "self-id-peer-addr",
            Kind::SelfIdOwnAddr => "self-id-own-addr",
            Kind::EmptyAlpn => "empty-alpn",
            Kind::EmptyAlpnWithAdditional => "empty-alpn-with-additional",
        }
    }
    fn from(s: &str) -> Kind {
        match s {
            "self-id-peer-addr" => Kind::SelfIdPeerAddr,
            "self-id-own-addr" => Kind::SelfIdOwnAddr,
            "empty-alpn" => Kind::EmptyAlpn,
            "empty-alpn-with-additional" => Kind::EmptyAlpnWithAdditional,
            _ => Kind::Normal,
        }
    }
}

#[derive(Clone, Debug)]
struct Attempt {
    /// which endpoint dials (0 or 1)
    dialer: usize,
    kind: Kind,
    via_opts: bool,
}

#[derive(Clone, Debug)]
struct Case {
    hooks: [Vec<HookSpec>; 2],
    attempts: Vec<Attempt>,
}

impl Case {
    fn to_json(&self) -> Value {
        let hs = |v: &Vec<HookSpec>| -> Value {
            v.iter().map(|h| json!({"before": h.before, "after": h.after, "delay_ms": h.delay_ms})).collect::<Vec<_>>().into()
        };
        json!({
            "hooks0": hs(&self.hooks[0]), "hooks1": hs(&self.hooks[1]),
            "attempts": self.attempts.iter().map(|a| json!({"dialer": a.dialer, "kind": a.kind.name(), "via_opts": a.via_opts})).collect::<Vec<_>>(),
        })
    }
    fn from_json(v: &Value) -> Case {
        let hs = |v: &Value| -> Vec<HookSpec> {
            v.as_array().map(|a| a.iter().map(|h| HookSpec {
                before: h["before"].as_array().map(|x| x.iter().map(|b| b.as_bool().unwrap_or(true)).collect()).unwrap_or(vec![true]),
                after: h["after"].as_array().map(|x| x.iter().map(|b| b.as_bool().unwrap_or(true)).collect()).unwrap_or(vec![true]),
                delay_ms: h["delay_ms"].as_u64().unwrap_or(0),
            }).collect()).unwrap_or_default()
        };
        Case {
            hooks: [hs(&v["hooks0"]), hs(&v["hooks1"])],
            attempts: v["attempts"].as_array().map(|a| a.iter().map(|t| Attempt {
                dialer: t["dialer"].as_u64().unwrap_or(0) as usize,
                kind: Kind::from(t["kind"].as_str().unwrap_or("normal")),
                via_opts: t["via_opts"].as_bool().unwrap_or(false),
            }).collect()).unwrap_or_default(),
        }
    }
}

fn alpn_of(i: usize) -> Vec<u8> {
    format!("c42/{i}").into_bytes()
}

static ZERO_RTT_DIALS: std::sync::atomic::AtomicU64 = std::sync::atomic::AtomicU64::new(0);

#[derive(Clone, Debug)]
enum DialRes {
    Err(Seen),
    /// connect returned a Connection; echo result; close reason if the echo failed
    Ok { echo: bool, closed: Option<Seen>, alpn: Vec<u8> },
    Budget,
}

async fn accept_loop(ep: Endpoint, me: usize, log: Log) {
    while let Some(incoming) = ep.accept().await {
        let offered: Option<Vec<Vec<u8>>> = incoming
            .decrypt()
            .and_then(|d| d.alpns())
            .map(|it| it.filter_map(|x| x.ok()).map(|b| b.to_vec()).collect());
        log.lock().unwrap().push(Ev::Incoming { ep: me, alpns: offered.clone() });
        let log = log.clone();
        tokio::spawn(async move {
            let first = offered.as_ref().and_then(|v| if v.len() == 1 { Some(v[0].clone()) } else { None });
            let accepting = match incoming.accept() {
                Ok(a) => a,
                Err(e) => {
                    log.lock().unwrap().push(Ev::AcceptErr { ep: me, alpn: first, seen: seen_conn(&e) });
                    return;
                }
            };
            // half of the incoming connections are completed through the 0-RTT / 0.5-RTT accept
            // path (`Accepting::into_0rtt` + `handshake_completed`); which half is a fixed function
            // of the attempt's unique protocol name
            let zero_rtt = first.as_ref().map(|a| a.iter().map(|b| *b as u32).sum::<u32>() % 2 == 0).unwrap_or(false);
            let accepted = if zero_rtt {
                log.lock().unwrap().push(Ev::Note { what: "accept-via-0rtt" });
                accepting.into_0rtt().handshake_completed().await
            } else {
                accepting.await
            };
            match accepted {
                Ok(conn) => {
                    let alpn = conn.alpn().to_vec();
                    log.lock().unwrap().push(Ev::AcceptOk { ep: me, alpn: alpn.clone() });
                    // echo until the connection ends
                    loop {
                        match conn.accept_bi().await {
                            Ok((mut s, mut r)) => {
                                if let Ok(data) = r.read_to_end(4096).await {
                                    let _ = s.write_all(&data).await;
                                    let _ = s.finish();
                                }
                            }
                            Err(_) => break,
                        }
                    }
                    let reason = conn.closed().await;
                    log.lock().unwrap().push(Ev::AcceptClosed { ep: me, alpn, seen: seen_conn(&reason) });
                }
                Err(e) => {
                    log.lock().unwrap().push(Ev::AcceptErr { ep: me, alpn: first, seen: seen_connecting(&e) });
                }
            }
        });
    }
}

async fn dial(x: &Endpoint, addr: EndpointAddr, alpn: &[u8], att: &Attempt, extra: Vec<Vec<u8>>, nonce: u64) -> DialRes {
    let fut = async {
        let res: Result<Connection, Seen> = if att.via_opts || !extra.is_empty() {
            let opts = ConnectOptions::new().with_additional_alpns(extra);
            match x.connect_with_opts(addr, alpn, opts).await {
                // odd nonces try the 0-RTT connect path first (it exists once an earlier
                // connection to this peer left a session ticket)
                Ok(c) if nonce % 2 == 1 => match c.into_0rtt() {
                    Ok(z) => {
                        ZERO_RTT_DIALS.fetch_add(1, std::sync::atomic::Ordering::Relaxed);
                        match z.handshake_completed().await {
                            Ok(iroh::endpoint::ZeroRttStatus::Accepted(c)) | Ok(iroh::endpoint::ZeroRttStatus::Rejected(c)) => Ok(c),
                            Err(e) => Err(seen_connecting(&e)),
                        }
                    }
                    Err(c) => c.await.map_err(|e| seen_connecting(&e)),
                },
                Ok(c) => c.await.map_err(|e| seen_connecting(&e)),
                Err(e) => Err(seen_opts(&e)),
            }
        } else {
            x.connect(addr, alpn).await.map_err(|e| seen_connect(&e))
        };
        match res {
            Err(s) => DialRes::Err(s),
            Ok(conn) => {
                let payload = nonce.to_le_bytes();
                let echo = async {
                    let (mut s, mut r) = conn.open_bi().await.ok()?;
                    s.write_all(&payload).await.ok()?;
                    s.finish().ok()?;
                    let back = r.read_to_end(64).await.ok()?;
                    Some(back == payload)
                }
                .await
                .unwrap_or(false);
                let alpn = conn.alpn().to_vec();
                if echo {
                    conn.close(VarInt::from_u32(DONE_CODE), b"done");
                    DialRes::Ok { echo, closed: None, alpn }
                } else {
                    let reason = conn.closed().await;
                    DialRes::Ok { echo, closed: Some(seen_conn(&reason)), alpn }
                }
            }
        }
    };
    epkit::within(BUDGET, fut).await.unwrap_or(DialRes::Budget)
}

fn hooks_for<'a>(evs: &'a [Ev], ep: usize, before: bool, alpn: &[u8]) -> Vec<(usize, bool)> {
    evs.iter()
        .filter_map(|e| match e {
            Ev::Hook { ep: e2, idx, before: b, alpn: a, accept } if *e2 == ep && *b == before && a == alpn => Some((*idx, *accept)),
            _ => None,
        })
        .collect()
}

/// Returns (rejecting hook index, anomaly) for an invocation sequence.
fn first_reject(seq: &[(usize, bool)]) -> Option<usize> {
    seq.iter().position(|(_, acc)| !acc)
}

struct Judge<'a> {
    rep: &'a Report,
    replay: Value,
}

impl Judge<'_> {
    fn v(&self, sig: &str, detail: String) {
        self.rep.violation(sig, detail, self.replay.clone());
    }

    /// Common checks on one hook-point invocation sequence. Returns Some(rejecting hook idx).
    fn check_seq(&self, seq: &[(usize, bool)], n: usize, stage: &str, role: &str, att: usize) -> Option<usize> {
        let rej = first_reject(seq);
        if let Some(p) = rej {
            if seq.len() > p + 1 {
                self.v(
                    &format!("C42:{stage}-hook-invoked-after-reject:{role}"),
                    format!("attempt {att}: {stage} invocations (hook idx, accepted) = {seq:?}: hook(s) invoked after the rejecting one"),
                );
            }
        }
        let in_order = seq.iter().enumerate().all(|(k, (i, _))| *i == k);
        if !in_order || seq.len() > n {
            self.rep.count(&format!("anomaly.{stage}_sequence_not_in_install_order"), 1);
            self.rep.note(format!("attempt {att} {role} {stage}: sequence {seq:?} of {n} hooks"));
        }
        rej.map(|p| seq[p].0)
    }
}

fn all_asked(seq: &[(usize, bool)], n: usize) -> bool {
    (0..n).all(|i| seq.iter().any(|(j, _)| *j == i))
}

async fn run_case(rep: &Report, case: &Case, keys: [iroh::SecretKey; 2], nonce0: u64) {
    let replay = case.to_json();
    let log: Log = Arc::new(Mutex::new(Vec::new()));
    let all_alpns: Vec<Vec<u8>> = (0..case.attempts.len()).map(alpn_of).collect();
    let mut eps = Vec::new();
    for (e, key) in keys.into_iter().enumerate() {
        let mut b = epkit::builder(key).alpns(all_alpns.clone());
        for (i, spec) in case.hooks[e].iter().enumerate() {
            b = b.hooks(PatHook { ep: e, idx: i, spec: spec.clone(), nb: AtomicUsize::new(0), na: AtomicUsize::new(0), log: log.clone() });
        }
        match b.bind().await {
            Ok(ep) => eps.push(ep),
            Err(err) => {
                rep.inconclusive("bind-failed");
                rep.note(format!("bind failed: {err:#}"));
                for ep in eps {
                    ep.close().await;
                }
                return;
            }
        }
    }
    let socks = [epkit::local_addr(&eps[0]), epkit::local_addr(&eps[1])];
    let loops: Vec<_> = (0..2).map(|e| tokio::spawn(accept_loop(eps[e].clone(), e, log.clone()))).collect();
    let n = [case.hooks[0].len(), case.hooks[1].len()];

    let mut dials: Vec<DialRes> = Vec::new();
    let t_start = std::time::Instant::now();
    for (i, att) in case.attempts.iter().enumerate() {
        let t_att = std::time::Instant::now();
        let x = att.dialer;
        let y = 1 - x;
        let alpn = alpn_of(i);
        let (addr, primary, extra): (EndpointAddr, Vec<u8>, Vec<Vec<u8>>) = match att.kind {
            Kind::Normal => (epkit::addr_of(eps[y].id(), socks[y]), alpn.clone(), vec![]),
            Kind::SelfIdPeerAddr => (epkit::addr_of(eps[x].id(), socks[y]), alpn.clone(), vec![]),
            Kind::SelfIdOwnAddr => (epkit::addr_of(eps[x].id(), socks[x]), alpn.clone(), vec![]),
            Kind::EmptyAlpn => (epkit::addr_of(eps[y].id(), socks[y]), vec![], vec![]),
            Kind::EmptyAlpnWithAdditional => (epkit::addr_of(eps[y].id(), socks[y]), vec![], vec![alpn.clone()]),
        };
        let res = dial(&eps[x], addr, &primary, att, extra, nonce0 + i as u64).await;
        rep.count(&format!("time_ms.dial.{}", att.kind.name()), t_att.elapsed().as_millis() as u64);
        // wait for the acceptor's terminal event for this ALPN when a handshake may have run
        if att.kind == Kind::Normal {
            let before = hooks_for(&log.lock().unwrap(), x, true, &alpn);
            if first_reject(&before).is_none() {
                let log2 = log.clone();
                let a2 = alpn.clone();
                let got = epkit::wait_until(Duration::from_secs(10), move || {
                    log2.lock().unwrap().iter().any(|e| match e {
                        Ev::AcceptErr { ep, alpn: Some(a), .. } => *ep == y && *a == a2,
                        Ev::AcceptClosed { ep, alpn: a, .. } => *ep == y && *a == a2,
                        _ => false,
                    })
                })
                .await;
                if !got {
                    rep.count("attempts.acceptor_terminal_event_missing", 1);
                }
            } else {
                // settle window for the "no packet reaches the peer" clause (re-checked at the end)
                tokio::time::sleep(Duration::from_millis(15)).await;
            }
        }
        dials.push(res);
    }
    rep.count("time_ms.attempts_total", t_start.elapsed().as_millis() as u64);
    // final settle before judging the silence clauses
    tokio::time::sleep(Duration::from_millis(30)).await;
    let evs: Vec<Ev> = log.lock().unwrap().clone();
    let j = Judge { rep, replay: replay.clone() };

    for (i, att) in case.attempts.iter().enumerate() {
        rep.eval();
        let x = att.dialer;
        let y = 1 - x;
        let alpn = alpn_of(i);
        let res = &dials[i];
        rep.count(&format!("attempts.kind.{}", att.kind.name()), 1);
        if matches!(res, DialRes::Budget) {
            rep.inconclusive(&format!("dial-did-not-finish-within-budget:{}", att.kind.name()));
            continue;
        }
        let dial_ok = matches!(res, DialRes::Ok { .. });
        match att.kind {
            Kind::Normal => {}
            Kind::SelfIdPeerAddr | Kind::SelfIdOwnAddr => {
                if dial_ok {
                    j.v(&format!("C42:self-connect-succeeded:{}", att.kind.name()), format!("attempt {i}: connect to own id returned a Connection ({res:?}); hooks {:?}", case.hooks[x]));
                } else {
                    rep.count("precondition.self_connect_failed", 1);
                    rep.count(&format!("precondition.self_connect_failed.{}", att.kind.name()), 1);
                    rep.nontrivial(format!("self|{}|{}", att.kind.name(), n[x]).as_bytes());
                }
                let seq = hooks_for(&evs, x, true, &alpn);
                j.check_seq(&seq, n[x], "before-connect", "dialer", i);
                continue;
            }
            Kind::EmptyAlpn | Kind::EmptyAlpnWithAdditional => {
                if let DialRes::Ok { alpn: negotiated, .. } = res {
                    j.v(&format!("C42:empty-alpn-connect-succeeded:{}", att.kind.name()), format!("attempt {i}: connect with empty ALPN returned a Connection (negotiated {:?})", String::from_utf8_lossy(negotiated)));
                } else {
                    rep.count("precondition.empty_alpn_failed", 1);
                    rep.nontrivial(format!("empty|{}|{}", att.kind.name(), n[x]).as_bytes());
                }
                continue;
            }
        }
        // ---- Normal attempt
        let bx = hooks_for(&evs, x, true, &alpn);
        let rej_b = j.check_seq(&bx, n[x], "before-connect", "dialer", i);
        let ax = hooks_for(&evs, x, false, &alpn);
        let ay = hooks_for(&evs, y, false, &alpn);
        let incoming_seen = evs.iter().any(|e| matches!(e, Ev::Incoming { ep, alpns: Some(a) } if *ep == y && a.contains(&alpn)));
        let accept_ok = evs.iter().any(|e| matches!(e, Ev::AcceptOk { ep, alpn: a } if *ep == y && *a == alpn));
        let y_seen: Option<Seen> = evs.iter().find_map(|e| match e {
            Ev::AcceptErr { ep, alpn: Some(a), seen } if *ep == y && *a == alpn => Some(seen.clone()),
            Ev::AcceptClosed { ep, alpn: a, seen } if *ep == y && *a == alpn => Some(seen.clone()),
            _ => None,
        });
        if let Some(h) = rej_b {
            rep.count("attempts.before_connect_rejected", 1);
            if dial_ok {
                j.v("C42:connected-despite-before-connect-reject", format!("attempt {i}: before_connect hook {h} rejected but connect returned a Connection"));
            } else if let DialRes::Err(s) = res {
                if *s == Seen::LocallyRejected {
                    rep.count("attempts.before_reject_reported_as_locally_rejected", 1);
                }
            }
            if incoming_seen {
                j.v("C42:packet-reached-peer-after-before-connect-reject", format!("attempt {i}: before_connect hook {h} rejected, yet the peer saw an Incoming offering ALPN {:?}", String::from_utf8_lossy(&alpn)));
            } else {
                rep.count("attempts.before_reject_peer_silent", 1);
            }
            if !ax.is_empty() || !ay.is_empty() {
                j.v("C42:handshake-ran-after-before-connect-reject", format!("attempt {i}: after_handshake hooks ran (dialer {ax:?}, acceptor {ay:?}) although before_connect hook {h} rejected"));
            }
            rep.nontrivial(format!("before-reject|n={}|h={h}|len={}", n[x], bx.len()).as_bytes());
            continue;
        }
        if dial_ok && !all_asked(&bx, n[x]) {
            j.v("C42:established-without-asking-all-before-connect-hooks", format!("attempt {i}: connect returned a Connection but before_connect invocations were {bx:?} of {} hooks", n[x]));
        }
        let rej_x = j.check_seq(&ax, n[x], "after-handshake", "dialer", i);
        let rej_y = j.check_seq(&ay, n[y], "after-handshake", "acceptor", i);
        if dial_ok {
            if let Some(h) = rej_x {
                j.v("C42:established-despite-after-handshake-reject:dialer", format!("attempt {i}: dialer after_handshake hook {h} rejected but connect returned a Connection ({res:?})"));
            } else if !all_asked(&ax, n[x]) {
                j.v("C42:established-without-asking-all-after-handshake-hooks:dialer", format!("attempt {i}: connect returned a Connection, after_handshake invocations {ax:?} of {} hooks", n[x]));
            }
        }
        if accept_ok {
            if let Some(h) = rej_y {
                j.v("C42:established-despite-after-handshake-reject:acceptor", format!("attempt {i}: acceptor after_handshake hook {h} rejected but accept returned a Connection"));
            } else if !all_asked(&ay, n[y]) {
                j.v("C42:established-without-asking-all-after-handshake-hooks:acceptor", format!("attempt {i}: accept returned a Connection, after_handshake invocations {ay:?} of {} hooks", n[y]));
            }
        }
        match (rej_x, rej_y) {
            (Some(h), None) => {
                rep.count("attempts.after_handshake_rejected.dialer_only", 1);
                let (code, reason) = hook_code(x, h);
                match &y_seen {
                    Some(Seen::App(c, r)) if *c == code as u64 && *r == reason => rep.count("peer_saw_hook_close.acceptor", 1),
                    Some(Seen::App(c, r)) => j.v(
                        "C42:peer-saw-wrong-close:acceptor-after-dialer-reject",
                        format!("attempt {i}: dialer hook {h} rejected with code {code} reason {:?}; acceptor observed application close {c} {:?}", String::from_utf8_lossy(&reason), String::from_utf8_lossy(r)),
                    ),
                    other => {
                        rep.inconclusive("peer-close-not-observed:acceptor");
                        rep.note(format!("attempt {i}: acceptor observed {other:?} after dialer reject"));
                    }
                }
                rep.nontrivial(format!("after-reject-dialer|{}|{}|h={h}|{}", n[x], n[y], accept_ok).as_bytes());
            }
            (None, Some(h)) => {
                rep.count("attempts.after_handshake_rejected.acceptor_only", 1);
                let (code, reason) = hook_code(y, h);
                let x_seen = match res {
                    DialRes::Err(s) => Some(s.clone()),
                    DialRes::Ok { closed, .. } => closed.clone(),
                    DialRes::Budget => None,
                };
                match &x_seen {
                    Some(Seen::App(c, r)) if *c == code as u64 && *r == reason => {
                        rep.count("peer_saw_hook_close.dialer", 1);
                        if dial_ok {
                            rep.count("peer_saw_hook_close.dialer_after_connect_returned", 1);
                        }
                    }
                    Some(Seen::App(c, r)) => j.v(
                        "C42:peer-saw-wrong-close:dialer-after-acceptor-reject",
                        format!("attempt {i}: acceptor hook {h} rejected with code {code} reason {:?}; dialer observed application close {c} {:?}", String::from_utf8_lossy(&reason), String::from_utf8_lossy(r)),
                    ),
                    other => {
                        rep.inconclusive("peer-close-not-observed:dialer");
                        rep.note(format!("attempt {i}: dialer observed {other:?} after acceptor reject"));
                    }
                }
                rep.nontrivial(format!("after-reject-acceptor|{}|{}|h={h}|{}", n[x], n[y], dial_ok).as_bytes());
            }
            (Some(hx), Some(hy)) => {
                rep.count("attempts.after_handshake_rejected.both", 1);
                rep.nontrivial(format!("after-reject-both|{}|{}|{hx}|{hy}", n[x], n[y]).as_bytes());
            }
            (None, None) => {
                let ok = matches!(res, DialRes::Ok { echo: true, .. });
                if ok && accept_ok {
                    rep.count("attempts.all_accepted_established_and_echoed", 1);
                    if n[x] + n[y] > 0 {
                        rep.nontrivial(format!("all-accept|{}|{}", n[x], n[y]).as_bytes());
                    }
                } else {
                    rep.count("attempts.all_accepted_but_not_established", 1);
                    rep.inconclusive("all-hooks-accepted-but-not-established");
                    rep.note(format!("attempt {i}: dial {res:?}, acceptor {y_seen:?}, ax {ax:?} ay {ay:?}"));
                }
            }
        }
        if rep.want_sample() && (rej_x.is_some() || rej_y.is_some()) {
            rep.sample(json!({
                "attempt": i, "dialer": x, "hooks_dialer": n[x], "hooks_acceptor": n[y],
                "before_connect": bx, "after_handshake_dialer": ax, "after_handshake_acceptor": ay,
                "dial": format!("{res:?}"), "acceptor_saw": y_seen.as_ref().map(|s| s.json()),
            }));
        }
    }
    rep.count("events.hook_invocations", evs.iter().filter(|e| matches!(e, Ev::Hook { .. })).count() as u64);
    rep.count("paths.dial_via_0rtt", ZERO_RTT_DIALS.swap(0, std::sync::atomic::Ordering::Relaxed));
    rep.count("paths.accept_via_0rtt", evs.iter().filter(|e| matches!(e, Ev::Note { what: "accept-via-0rtt" })).count() as u64);
    rep.count("events.incoming", evs.iter().filter(|e| matches!(e, Ev::Incoming { .. })).count() as u64);
    rep.count("events.incoming_alpn_unreadable", evs.iter().filter(|e| matches!(e, Ev::Incoming { alpns: None, .. })).count() as u64);

    let t_close = std::time::Instant::now();
    for ep in &eps {
        let _ = epkit::within(BUDGET, ep.close()).await;
    }
    rep.count("time_ms.close", t_close.elapsed().as_millis() as u64);
    for l in loops {
        l.abort();
    }
}

fn gen_spec(rng: &mut Rng) -> HookSpec {
    let lb = rng.range(1, 3) as usize;
    let la = rng.range(1, 3) as usize;
    HookSpec {
        before: (0..lb).map(|_| !rng.chance(1, 4)).collect(),
        after: (0..la).map(|_| !rng.chance(1, 4)).collect(),
        delay_ms: if rng.chance(1, 3) { rng.range(1, 4) } else { 0 },
    }
}

fn gen_case(rng: &mut Rng, n_attempts: usize) -> Case {
    let hooks = [
        (0..rng.below(4)).map(|_| gen_spec(rng)).collect::<Vec<_>>(),
        (0..rng.below(4)).map(|_| gen_spec(rng)).collect::<Vec<_>>(),
    ];
    let attempts = (0..n_attempts)
        .map(|_| Attempt {
            dialer: rng.below(2) as usize,
            kind: match rng.below(20) {
                0 | 1 => Kind::SelfIdPeerAddr,
                2 => Kind::SelfIdOwnAddr,
                3 | 4 => Kind::EmptyAlpn,
                5 => Kind::EmptyAlpnWithAdditional,
                _ => Kind::Normal,
            },
            via_opts: rng.bool(),
        })
        .collect();
    Case { hooks, attempts }
}


/// Child-process probe: a handful of empty-ALPN dials between two plain endpoints.  Run in
/// a separate process so that a crash (panic -> abort inside the QUIC stack) caused by an
/// empty protocol name is observable by the parent instead of killing the monitor.
fn probe_main(seed: u64) {
    let rt = epkit::runtime(2);
    rt.block_on(async {
        let mut rng = Rng::derive(seed, "C42-probe", 0);
        let x = epkit::builder(epkit::secret(rng.array())).bind().await.expect("bind");
        let y = epkit::builder(epkit::secret(rng.array())).alpns(vec![b"c42/probe".to_vec()]).bind().await.expect("bind");
        let yl = tokio::spawn({
            let y = y.clone();
            async move {
                while let Some(inc) = y.accept().await {
                    tokio::spawn(async move {
                        if let Ok(c) = inc.await {
                            c.closed().await;
                        }
                    });
                }
            }
        });
        let addr = epkit::addr_of(y.id(), epkit::local_addr(&y));
        let mut ok = 0;
        let mut failed = 0;
        for i in 0..4 {
            let extra = if i % 2 == 1 { vec![b"c42/probe".to_vec()] } else { vec![] };
            let att = Attempt { dialer: 0, kind: Kind::EmptyAlpn, via_opts: i >= 2 };
            match dial(&x, addr.clone(), b"", &att, extra, i).await {
                DialRes::Ok { .. } => ok += 1,
                _ => failed += 1,
            }
        }
        println!("PROBE-DONE ok={ok} failed={failed}");
        yl.abort();
        let _ = epkit::within(BUDGET, x.close()).await;
        let _ = epkit::within(BUDGET, y.close()).await;
    });
}

/// Runs the probe in a child process. Returns false if the child crashed.
fn run_probe(rep: &Report, seed: u64) -> bool {
    let exe = match std::env::current_exe() {
        Ok(e) => e,
        Err(_) => {
            rep.inconclusive("probe-not-startable");
            return true;
        }
    };
    let out = std::process::Command::new(exe).args(["--probe", "1", "--seed", &seed.to_string()]).output();
    match out {
        Ok(o) => {
            let text = String::from_utf8_lossy(&o.stdout).to_string();
            if o.status.success() && text.contains("PROBE-DONE") {
                rep.count("probe.empty_alpn_process_survived", 1);
                if !text.contains("ok=0") {
                    rep.violation("C42:empty-alpn-connect-succeeded:probe", text.trim().to_string(), json!({"probe": "empty-alpn"}));
                }
                true
            } else {
                let err = String::from_utf8_lossy(&o.stderr);
                let first = err.lines().find(|l| l.contains("panicked at")).unwrap_or("").to_string();
                rep.violation(
                    "C42:empty-alpn-connect-crashed-process",
                    format!("connect with an empty ALPN did not fail: the probe process died ({:?}); first panic: {}", o.status, short_loc(&first)),
                    json!({"probe": "empty-alpn"}),
                );
                false
            }
        }
        Err(_) => {
            rep.inconclusive("probe-not-startable");
            true
        }
    }
}

fn main() {
    let a = args();
    if a.extra.contains_key("probe") {
        probe_main(a.seed);
        return;
    }
    let rep = Arc::new(Report::new(
        "C42",
        "seeded endpoint pairs with 0-3 pattern hooks per side (per-call accept/reject patterns for before_connect and after_handshake, optional in-hook delay), 6 sequential dial attempts per pair in either direction incl. self-id and empty-ALPN dials; evaluation = one attempt; non-trivial = attempt with a rejecting hook / failed precondition / established through >=1 hook; distinct = (stage and side of rejection, hook counts, rejecting hook index)",
        &a,
    ));
    // empty-ALPN dials first in a child process: a crash there is a finding, and then the
    // main workload leaves empty-ALPN dials out so that it can still run to its end
    let empty_alpn_safe = a.replay.is_some() || run_probe(&rep, a.seed);
    let rt = epkit::runtime(8);
    let n_cases: u64 = a.pick(300, 12000);
    let par: usize = a.pick(6, 12);
    rt.block_on(async {
        let mut rng = Rng::derive(a.seed, "C42", 0);
        if let Some(p) = &a.replay {
            let v: Value = serde_json::from_str(&std::fs::read_to_string(p).unwrap()).unwrap();
            let case = Case::from_json(&v["replay"]);
            for _ in 0..3 {
                let keys = [epkit::secret(rng.array()), epkit::secret(rng.array())];
                run_case(&rep, &case, keys, rng.next_u64()).await;
            }
        } else {
            let sem = Arc::new(Semaphore::new(par));
            let mut js = tokio::task::JoinSet::new();
            for _ in 0..n_cases {
                let mut case = gen_case(&mut rng, 6);
                if !empty_alpn_safe {
                    for t in case.attempts.iter_mut() {
                        if matches!(t.kind, Kind::EmptyAlpn | Kind::EmptyAlpnWithAdditional) {
                            t.kind = Kind::Normal;
                        }
                    }
                }
                let keys = [epkit::secret(rng.array()), epkit::secret(rng.array())];
                let nonce = rng.next_u64();
                let permit = sem.clone().acquire_owned().await.unwrap();
                let rep = rep.clone();
                js.spawn(async move {
                    run_case(&rep, &case, keys, nonce).await;
                    drop(permit);
                });
            }
            while let Some(r) = js.join_next().await {
                if r.is_err() {
                    rep.inconclusive("case-task-panicked");
                }
            }
            rep.require("attempts.before_connect_rejected", a.pick(100, 1500));
            rep.require("attempts.before_reject_peer_silent", a.pick(100, 1500));
            rep.require("attempts.after_handshake_rejected.dialer_only", a.pick(50, 800));
            rep.require("attempts.after_handshake_rejected.acceptor_only", a.pick(50, 800));
            rep.require("peer_saw_hook_close.acceptor", a.pick(40, 600));
            rep.require("peer_saw_hook_close.dialer", a.pick(40, 600));
            rep.require("attempts.all_accepted_established_and_echoed", a.pick(120, 1500));
            rep.require("precondition.self_connect_failed", a.pick(50, 800));
            // per kind: a variant whose dials all hang to the budget must not leave the check HELD
            rep.require("precondition.self_connect_failed.self-id-own-addr", a.pick(15, 200));
            rep.require("precondition.self_connect_failed.self-id-peer-addr", a.pick(15, 200));
            if empty_alpn_safe {
                rep.require("precondition.empty_alpn_failed", a.pick(50, 800));
            }
        }
    });
    rep.finish();
}
