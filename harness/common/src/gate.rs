//! Gate controller and event log for the `verif-hooks` pause points / events in `/repo`.
//!
//! A pause point in the code under test calls `iroh_base::verif_hooks::pause(name)`.
//! With [`install`] the harness decides per name what happens:
//!   * nothing (default),
//!   * *stress*: sleep/yield a seeded number of microseconds,
//!   * *armed*: the calling OS thread blocks on a condvar until [`release`] — used to
//!     impose a specific order of two or three short critical sections.
//! Pauses are synchronous thread blocks (never injected awaits), i.e. they only model
//! OS pre-emption, which a multi-thread runtime or plain threads really permit.

use std::{
    collections::BTreeMap,
    sync::{
        Arc, Condvar, Mutex,
        atomic::{AtomicU64, Ordering},
    },
    time::{Duration, Instant},
};

#[derive(Default, Clone, Debug)]
struct GateState {
    /// number of future arrivals that will be held
    hold_next: u32,
    /// arrivals currently blocked
    waiting: u32,
    /// release tokens not yet consumed
    tokens: u32,
    arrivals: u64,
    stress_max_us: u64,
    timeouts: u64,
}

struct Ctl {
    gates: Mutex<BTreeMap<&'static str, GateState>>,
    cv: Condvar,
    stress_state: AtomicU64,
    /// ordered trace of (seq, name, phase) — phase: "arrive", "hold", "pass"
    trace: Mutex<Vec<(u64, &'static str, &'static str)>>,
}

static SEQ: AtomicU64 = AtomicU64::new(0);

fn ctl() -> &'static Ctl {
    static C: std::sync::OnceLock<Ctl> = std::sync::OnceLock::new();
    C.get_or_init(|| Ctl {
        gates: Mutex::new(BTreeMap::new()),
        cv: Condvar::new(),
        stress_state: AtomicU64::new(0x1234_5678_9abc_def1),
        trace: Mutex::new(Vec::new()),
    })
}

/// Global monotone sequence number shared by gates and the event log.
pub fn next_seq() -> u64 {
    SEQ.fetch_add(1, Ordering::SeqCst)
}

/// Maximum time an armed gate holds a thread before giving up (the run is then
/// inconclusive, see [`timeouts`]).
pub const HOLD_LIMIT: Duration = Duration::from_secs(20);
static HOLD_LIMIT_MS: AtomicU64 = AtomicU64::new(20_000);

/// Changes the maximum time an armed gate holds a thread (default [`HOLD_LIMIT`]).
pub fn set_hold_limit(d: Duration) {
    HOLD_LIMIT_MS.store(d.as_millis() as u64, Ordering::SeqCst);
}

fn on_pause(name: &'static str) {
    let c = ctl();
    let mut g = c.gates.lock().unwrap_or_else(|e| e.into_inner());
    let st = g.entry(name).or_default();
    st.arrivals += 1;
    c.trace
        .lock()
        .unwrap_or_else(|e| e.into_inner())
        .push((next_seq(), name, "arrive"));
    if st.hold_next > 0 {
        st.hold_next -= 1;
        st.waiting += 1;
        c.cv.notify_all();
        let deadline = Instant::now() + Duration::from_millis(HOLD_LIMIT_MS.load(Ordering::SeqCst));
        loop {
            let st = g.get_mut(name).expect("gate");
            if st.tokens > 0 {
                st.tokens -= 1;
                st.waiting -= 1;
                break;
            }
            let now = Instant::now();
            if now >= deadline {
                st.waiting -= 1;
                st.timeouts += 1;
                break;
            }
            let (ng, _) = c
                .cv
                .wait_timeout(g, deadline - now)
                .unwrap_or_else(|e| e.into_inner());
            g = ng;
        }
        c.trace
            .lock()
            .unwrap_or_else(|e| e.into_inner())
            .push((next_seq(), name, "pass"));
        c.cv.notify_all();
        return;
    }
    let stress = st.stress_max_us;
    drop(g);
    if stress > 0 {
        // xorshift on a shared atomic: cheap, seeded, thread-safe
        let mut x = c.stress_state.load(Ordering::Relaxed);
        x ^= x << 13;
        x ^= x >> 7;
        x ^= x << 17;
        c.stress_state.store(x, Ordering::Relaxed);
        let us = x % (stress + 1);
        if us == 0 {
            std::thread::yield_now();
        } else {
            std::thread::sleep(Duration::from_micros(us));
        }
    }
}

/// Installs the pause handler (idempotent) and clears all gate state.
pub fn install() {
    iroh_base::verif_hooks::set_pause_handler(Some(Arc::new(on_pause)));
    reset();
}

/// Clears all gate state (armed gates, stress settings, trace).
pub fn reset() {
    let c = ctl();
    let mut g = c.gates.lock().unwrap_or_else(|e| e.into_inner());
    // release anything still held
    for st in g.values_mut() {
        st.tokens += st.waiting;
        st.hold_next = 0;
        st.stress_max_us = 0;
    }
    c.cv.notify_all();
    drop(g);
    std::thread::sleep(Duration::from_millis(1));
    let mut g = c.gates.lock().unwrap_or_else(|e| e.into_inner());
    g.retain(|_, st| st.waiting > 0);
    for st in g.values_mut() {
        st.arrivals = 0;
        st.timeouts = 0;
    }
    c.trace.lock().unwrap_or_else(|e| e.into_inner()).clear();
}

/// The next `n` arrivals at `name` will block until released.
pub fn arm(name: &'static str, n: u32) {
    let c = ctl();
    let mut g = c.gates.lock().unwrap_or_else(|e| e.into_inner());
    g.entry(name).or_default().hold_next += n;
}

/// Cancels pending holds (threads already blocked stay blocked until released).
pub fn disarm(name: &'static str) {
    let c = ctl();
    let mut g = c.gates.lock().unwrap_or_else(|e| e.into_inner());
    g.entry(name).or_default().hold_next = 0;
}

/// Arrivals at `name` sleep a seeded 0..=max_us microseconds.
pub fn stress(name: &'static str, max_us: u64, seed: u64) {
    let c = ctl();
    c.stress_state.store(seed | 1, Ordering::Relaxed);
    let mut g = c.gates.lock().unwrap_or_else(|e| e.into_inner());
    g.entry(name).or_default().stress_max_us = max_us;
}

/// Waits until at least one thread is blocked at `name`.
pub fn wait_held(name: &'static str, timeout: Duration) -> bool {
    let c = ctl();
    let deadline = Instant::now() + timeout;
    let mut g = c.gates.lock().unwrap_or_else(|e| e.into_inner());
    loop {
        // a thread that has been granted a release token but has not woken up yet still counts
        // in `waiting`: it is on its way out, not held
        if g.get(name).map(|s| s.waiting > s.tokens).unwrap_or(false) {
            return true;
        }
        let now = Instant::now();
        if now >= deadline {
            return false;
        }
        let (ng, _) = c
            .cv
            .wait_timeout(g, deadline - now)
            .unwrap_or_else(|e| e.into_inner());
        g = ng;
    }
}

/// Lets one blocked (or future held) arrival at `name` continue.
pub fn release(name: &'static str) {
    let c = ctl();
    let mut g = c.gates.lock().unwrap_or_else(|e| e.into_inner());
    g.entry(name).or_default().tokens += 1;
    c.cv.notify_all();
}

pub fn arrivals(name: &'static str) -> u64 {
    let c = ctl();
    let g = c.gates.lock().unwrap_or_else(|e| e.into_inner());
    g.get(name).map(|s| s.arrivals).unwrap_or(0)
}

pub fn held(name: &'static str) -> u32 {
    let c = ctl();
    let g = c.gates.lock().unwrap_or_else(|e| e.into_inner());
    g.get(name).map(|s| s.waiting.saturating_sub(s.tokens)).unwrap_or(0)
}

/// Number of holds that gave up after [`HOLD_LIMIT`].
pub fn timeouts() -> u64 {
    let c = ctl();
    let g = c.gates.lock().unwrap_or_else(|e| e.into_inner());
    g.values().map(|s| s.timeouts).sum()
}

pub fn trace() -> Vec<(u64, &'static str, &'static str)> {
    ctl().trace.lock().unwrap_or_else(|e| e.into_inner()).clone()
}

// ---------------------------------------------------------------------------------
// event log

#[derive(Clone, Debug)]
pub struct Event {
    pub seq: u64,
    pub thread: String,
    pub name: &'static str,
    pub fields: Vec<(&'static str, String)>,
}

impl Event {
    pub fn get(&self, k: &str) -> Option<&str> {
        self.fields
            .iter()
            .find(|(n, _)| *n == k)
            .map(|(_, v)| v.as_str())
    }
}

static EVENTS: Mutex<Vec<Event>> = Mutex::new(Vec::new());

fn on_event(name: &'static str, fields: &[(&'static str, String)]) {
    let ev = Event {
        seq: next_seq(),
        thread: format!("{:?}", std::thread::current().id()),
        name,
        fields: fields.to_vec(),
    };
    EVENTS.lock().unwrap_or_else(|e| e.into_inner()).push(ev);
}

/// Installs the event sink (idempotent) and clears the log.
pub fn install_events() {
    iroh_base::verif_hooks::set_event_handler(Some(Arc::new(on_event)));
    EVENTS.lock().unwrap_or_else(|e| e.into_inner()).clear();
}

/// Records an event from the harness side into the same log.
pub fn log(name: &'static str, fields: &[(&'static str, String)]) {
    on_event(name, fields);
}

pub fn events() -> Vec<Event> {
    EVENTS.lock().unwrap_or_else(|e| e.into_inner()).clone()
}

pub fn take_events() -> Vec<Event> {
    std::mem::take(&mut *EVENTS.lock().unwrap_or_else(|e| e.into_inner()))
}

pub fn event_count() -> usize {
    EVENTS.lock().unwrap_or_else(|e| e.into_inner()).len()
}
