//! C13 — the captive-portal probe echoes only well-formed challenges.
//!
//! Two real servers: a relay `Server` without TLS (`/generate_204` on the relay's HTTP port)
//! and one with the self-signed `testing` TLS config (separate plain-HTTP captive-portal
//! listener).  Raw HTTP/1.1 over TCP (keep-alive), so every header-value byte that the HTTP
//! layer admits can be sent.
//! Oracle (from the statement, on the header value as HTTP defines it, i.e. without the
//! optional whitespace around it): status 204; `X-Iroh-Response` present iff the challenge
//! is 1..=63 characters from [A-Za-z0-9._-], and then equal to `response <challenge>`;
//! otherwise absent.
//! Exhaustive part: every length 0..=80 of valid characters; every byte 0x20..=0xFF (except
//! DEL) as a 1-character challenge and at the start / middle / end of an otherwise valid one.
//! Seeded part: random lengths and mixtures, padding, header-name case, duplicate and missing
//! headers.  Requests the HTTP layer itself refuses (control bytes) are outside the
//! quantifier: the server only has to survive them (checked by the next request).
//! Open (accepted either way, counted): two challenge headers in one request.

use std::{collections::BTreeMap, time::Duration};

use common::{Report, Rng, args, catch};
use iroh_relay::server::{RelayConfig, Server, ServerConfig};
use serde_json::{Value, json};
use tokio::{
    io::{AsyncBufReadExt, AsyncWriteExt, BufReader},
    net::TcpStream,
};

type Local = BTreeMap<String, u64>;
fn bump(l: &mut Local, k: &str) {
    *l.entry(k.to_string()).or_default() += 1;
}

const BUDGET: Duration = Duration::from_secs(30);
const VALID: &[u8] = b"abcdefghijklmnopqrstuvwxyzABCDEFGHIJKLMNOPQRSTUVWXYZ0123456789.-_";

fn is_valid_char(c: u8) -> bool {
    c.is_ascii_alphanumeric() || c == b'.' || c == b'-' || c == b'_'
}

fn trim_ows(mut v: &[u8]) -> &[u8] {
    while let [b' ' | b'\t', rest @ ..] = v {
        v = rest;
    }
    while let [rest @ .., b' ' | b'\t'] = v {
        v = rest;
    }
    v
}

/// What the reference says for one challenge header value (as sent on the wire).
fn reference(wire_value: &[u8]) -> Option<Vec<u8>> {
    let c = trim_ows(wire_value);
    if (1..=63).contains(&c.len()) && c.iter().all(|&b| is_valid_char(b)) {
        let mut v = b"response ".to_vec();
        v.extend_from_slice(c);
        Some(v)
    } else {
        None
    }
}

fn why_invalid(wire_value: &[u8]) -> &'static str {
    let c = trim_ows(wire_value);
    if c.is_empty() {
        "empty"
    } else if c.len() > 63 && c.iter().all(|&b| is_valid_char(b)) {
        if c.len() == 64 { "length-64" } else { "too-long" }
    } else if c.iter().any(|&b| b >= 0x80) {
        "non-ascii-byte"
    } else if c.iter().any(|&b| b == b' ' || b == b'\t') {
        "inner-whitespace"
    } else {
        "ascii-char-outside-set"
    }
}

#[derive(Clone, Debug)]
struct Case {
    /// challenge header lines as (name, raw value)
    headers: Vec<(String, Vec<u8>)>,
    how: &'static str,
}

fn case_json(c: &Case, target: &str) -> Value {
    json!({"target": target, "how": c.how, "headers": c.headers.iter().map(|(n, v)| json!({"name": n, "hex": common::hex(v), "text": String::from_utf8_lossy(v)})).collect::<Vec<_>>()})
}

struct Conn {
    r: BufReader<TcpStream>,
    used: u32,
}

#[derive(Debug)]
struct Resp {
    status: u16,
    headers: Vec<(String, Vec<u8>)>,
}

async fn request(conn: &mut Conn, c: &Case) -> Option<Resp> {
    let mut req = b"GET /generate_204 HTTP/1.1\r\nHost: relay.test\r\n".to_vec();
    for (n, v) in &c.headers {
        req.extend_from_slice(n.as_bytes());
        req.extend_from_slice(b": ");
        req.extend_from_slice(v);
        req.extend_from_slice(b"\r\n");
    }
    req.extend_from_slice(b"\r\n");
    let fut = async {
        conn.r.get_mut().write_all(&req).await.ok()?;
        let mut line = Vec::new();
        conn.r.read_until(b'\n', &mut line).await.ok()?;
        let first = String::from_utf8_lossy(&line).into_owned();
        let status: u16 = first.split(' ').nth(1)?.trim().parse().ok()?;
        let mut headers = Vec::new();
        let mut content_length = 0usize;
        loop {
            line.clear();
            let n = conn.r.read_until(b'\n', &mut line).await.ok()?;
            if n == 0 {
                return None;
            }
            let l = line.strip_suffix(b"\r\n").or_else(|| line.strip_suffix(b"\n")).unwrap_or(&line);
            if l.is_empty() {
                break;
            }
            let p = l.iter().position(|&b| b == b':')?;
            let name = String::from_utf8_lossy(&l[..p]).to_ascii_lowercase();
            let val = trim_ows(&l[p + 1..]).to_vec();
            if name == "content-length" {
                content_length = String::from_utf8_lossy(&val).parse().unwrap_or(0);
            }
            headers.push((name, val));
        }
        if content_length > 0 {
            let mut body = vec![0u8; content_length];
            tokio::io::AsyncReadExt::read_exact(&mut conn.r, &mut body).await.ok()?;
        }
        Some(Resp { status, headers })
    };
    conn.used += 1;
    tokio::time::timeout(BUDGET, fut).await.ok().flatten()
}

async fn connect(addr: std::net::SocketAddr) -> Option<Conn> {
    let s = tokio::time::timeout(BUDGET, TcpStream::connect(addr)).await.ok()?.ok()?;
    Some(Conn { r: BufReader::new(s), used: 0 })
}

struct Target {
    name: &'static str,
    addr: std::net::SocketAddr,
    conn: Option<Conn>,
}

async fn check_case(rep: &Report, l: &mut Local, t: &mut Target, c: &Case, register: bool) {
    bump(l, "__evals");
    let replay = case_json(c, t.name);
    let has_ctl = c.headers.iter().any(|(_, v)| v.iter().any(|&b| (b < 0x20 && b != b'\t') || b == 0x7f));
    if t.conn.as_ref().is_none_or(|c| c.used >= 100) {
        t.conn = connect(t.addr).await;
    }
    let Some(conn) = t.conn.as_mut() else {
        rep.inconclusive("connect-failed");
        return;
    };
    let resp = request(conn, c).await;
    if has_ctl {
        // outside the quantifier: the HTTP layer may refuse it; the server must stay up
        t.conn = None;
        match resp {
            Some(r) => bump(l, &format!("ctl.answered-{}", r.status)),
            None => bump(l, "ctl.connection-closed"),
        }
        let probe = Case { headers: vec![("X-Iroh-Challenge".into(), b"alive".to_vec())], how: "liveness" };
        let mut fresh = connect(t.addr).await;
        let ok = match fresh.as_mut() {
            Some(cn) => request(cn, &probe).await.is_some_and(|r| r.status == 204),
            None => false,
        };
        if ok {
            bump(l, "ctl.server-alive-afterwards");
        } else {
            rep.violation("C13:server-dead-after-control-byte-request", format!("{}: no 204 for a plain probe after the request", t.name), replay);
        }
        return;
    }
    let resp = match resp {
        Some(r) => r,
        None => {
            // no answer on a kept-alive connection: once more on a fresh one, timed, so that
            // "closed without answering" (a refutation of "answers 204") and "slow" differ
            t.conn = None;
            let mut fresh = connect(t.addr).await;
            let started = std::time::Instant::now();
            let again = match fresh.as_mut() {
                Some(cn) => request(cn, c).await,
                None => None,
            };
            match again {
                Some(r) => {
                    bump(l, "retried-on-fresh-connection");
                    r
                }
                None if fresh.is_some() && started.elapsed() < BUDGET / 2 => {
                    let class = match c.headers.first() {
                        Some((_, v)) => match reference(v) {
                            Some(_) => "valid-challenge",
                            None => why_invalid(v),
                        },
                        None => "missing",
                    };
                    rep.violation(&format!("C13:connection-closed-without-answer:{class}"), format!("{}: the server closed the connection instead of answering 204 (twice, second time on a fresh connection)", t.name), replay);
                    return;
                }
                None => {
                    rep.inconclusive("no-http-response-within-budget");
                    return;
                }
            }
        }
    };
    if resp.headers.iter().any(|(n, v)| n == "connection" && v.eq_ignore_ascii_case(b"close")) {
        t.conn = None;
    }
    let echoes: Vec<&Vec<u8>> = resp.headers.iter().filter(|(n, _)| n == "x-iroh-response").map(|(_, v)| v).collect();
    let class = match c.headers.len() {
        0 => "missing".to_string(),
        1 => match reference(&c.headers[0].1) {
            Some(_) => format!("valid-len-{}", match trim_ows(&c.headers[0].1).len() { 1 => "1", 63 => "63", 2..=9 => "2..9", _ => "10..62" }),
            None => format!("invalid-{}", why_invalid(&c.headers[0].1)),
        },
        _ => "duplicate".to_string(),
    };
    if resp.status != 204 {
        rep.violation(&format!("C13:status-not-204:{class}"), format!("{}: status {}", t.name, resp.status), replay);
        return;
    }
    if echoes.len() > 1 {
        rep.violation("C13:response-header-duplicated", format!("{} X-Iroh-Response headers", echoes.len()), replay);
        return;
    }
    let got: Option<&Vec<u8>> = echoes.first().copied();
    match c.headers.len() {
        0 => {
            if got.is_some() {
                rep.violation("C13:response-without-challenge", format!("{}: {:?}", t.name, got.map(|g| String::from_utf8_lossy(g).into_owned())), replay);
                return;
            }
            bump(l, "ok.missing-header.no-response");
        }
        1 => {
            let want = reference(&c.headers[0].1);
            match (&want, got) {
                (Some(w), Some(g)) if w == g => bump(l, &format!("ok.echoed.{class}")),
                (None, None) => bump(l, &format!("ok.not-echoed.{class}")),
                (Some(_), Some(g)) => {
                    rep.violation("C13:echo-value-wrong", format!("{}: got {:?}", t.name, String::from_utf8_lossy(g)), replay);
                    return;
                }
                (Some(_), None) => {
                    rep.violation(&format!("C13:valid-challenge-not-echoed:{class}"), format!("{}: challenge {:?}", t.name, String::from_utf8_lossy(&c.headers[0].1)), replay);
                    return;
                }
                (None, Some(g)) => {
                    rep.violation(&format!("C13:invalid-challenge-echoed:{}", why_invalid(&c.headers[0].1)), format!("{}: challenge {:?} (len {}), response {:?}", t.name, String::from_utf8_lossy(&c.headers[0].1), trim_ows(&c.headers[0].1).len(), String::from_utf8_lossy(g)), replay);
                    return;
                }
            }
            if register {
                let v = trim_ows(&c.headers[0].1);
                // canonical form: length + the set of character classes + position of the first bad char
                let bad = v.iter().position(|&b| !is_valid_char(b));
                rep.nontrivial(format!("{}/{}/{:?}/{:?}/{}", t.name, v.len(), bad, bad.map(|i| v[i]), c.how).as_bytes());
                if rep.want_sample() && v.len() > 3 {
                    rep.sample(json!({"target": t.name, "challenge": String::from_utf8_lossy(&c.headers[0].1), "response": got.map(|g| String::from_utf8_lossy(g).into_owned())}));
                }
            }
        }
        _ => {
            // open: which of several challenge headers counts
            let allowed: Vec<Option<Vec<u8>>> = c.headers.iter().map(|(_, v)| reference(v)).chain([None]).collect();
            if allowed.contains(&got.cloned()) {
                bump(l, "open.duplicate-challenge-header.consistent-with-one-of-them");
            } else {
                rep.violation("C13:duplicate-challenge-unrelated-response", format!("{:?}", got.map(|g| String::from_utf8_lossy(g).into_owned())), replay);
            }
        }
    }
}

fn valid_string(rng: &mut Rng, n: usize) -> Vec<u8> {
    (0..n).map(|_| *rng.pick(VALID)).collect()
}

fn header_name(rng: &mut Rng) -> String {
    rng.pick(&["X-Iroh-Challenge", "X-Iroh-Challenge", "x-iroh-challenge", "X-IROH-CHALLENGE", "x-IrOh-cHaLlEnGe"]).to_string()
}

fn exhaustive_cases(rng: &mut Rng) -> Vec<Case> {
    let mut v = Vec::new();
    let one = |val: Vec<u8>, how| Case { headers: vec![("X-Iroh-Challenge".to_string(), val)], how };
    for n in 0..=80usize {
        v.push(one(valid_string(rng, n), "length-sweep"));
    }
    for b in 0x20u16..=0xff {
        let b = b as u8;
        if b == 0x7f {
            continue;
        }
        v.push(one(vec![b], "single-byte"));
        let mut s = valid_string(rng, 10);
        s[0] = b;
        v.push(one(s, "byte-at-start"));
        let mut s = valid_string(rng, 11);
        s[5] = b;
        v.push(one(s, "byte-in-middle"));
        let mut s = valid_string(rng, 12);
        s[11] = b;
        v.push(one(s, "byte-at-end"));
        // at the length limit
        let mut s = valid_string(rng, 63);
        s[62] = b;
        v.push(one(s, "byte-at-end-of-63"));
    }
    v
}

fn random_case(rng: &mut Rng) -> Case {
    let name = header_name(rng);
    let len = match rng.below(10) {
        0 => 0,
        1 => 1,
        2 => 62,
        3 => 63,
        4 => 64,
        5 => 65,
        6 => rng.range(66, 80) as usize,
        _ => rng.range(1, 80) as usize,
    };
    let mut val = valid_string(rng, len);
    let how = match rng.below(8) {
        0 | 1 | 2 => "valid-chars",
        3 | 4 => {
            // one byte from the neighbours of the allowed ranges or anything else
            if !val.is_empty() {
                let i = rng.usize_below(val.len());
                val[i] = match rng.below(4) {
                    0 => *rng.pick(b"/:@[`{,+~!*\"'()<>=?\\^|}%&#$;"),
                    1 => *rng.pick(b" \t"),
                    2 => rng.range(0x80, 0xff) as u8,
                    _ => rng.range(0x20, 0x7e) as u8,
                };
            }
            "one-odd-byte"
        }
        5 => {
            let k = rng.range(0, 3) as usize;
            let mut p: Vec<u8> = (0..k).map(|_| *rng.pick(b" \t")).collect();
            p.extend_from_slice(&val);
            for _ in 0..rng.range(0, 3) {
                p.push(*rng.pick(b" \t"));
            }
            val = p;
            "padded"
        }
        6 => {
            val = (0..len).map(|_| rng.range(0x20, 0xff) as u8).filter(|&b| b != 0x7f).collect();
            "random-bytes"
        }
        _ => {
            if !val.is_empty() {
                let i = rng.usize_below(val.len());
                val[i] = *rng.pick(&[0u8, 1, 8, 0x0b, 0x0c, 0x1f, 0x7f, b'\r']);
            }
            "control-byte"
        }
    };
    match rng.below(20) {
        0 => Case { headers: vec![], how: "missing" },
        1 | 2 => {
            let n_other = rng.range(0, 70) as usize;
            let other = valid_string(rng, n_other);
            Case { headers: vec![(name, val), (header_name(rng), other)], how: "duplicate" }
        }
        _ => Case { headers: vec![(name, val)], how },
    }
}

async fn run_all(rep: &Report, l: &mut Local, rng: &mut Rng, n_random: u64, exhaustive: bool) {
    // plain relay
    let mut cfg = ServerConfig::default();
    cfg.relay = Some(RelayConfig::new((std::net::Ipv4Addr::LOCALHOST, 0)));
    let plain = Server::spawn(cfg).await;
    let mut cfg = ServerConfig::default();
    let mut rc = RelayConfig::new((std::net::Ipv4Addr::LOCALHOST, 0));
    rc.tls = Some(iroh_relay::server::testing::tls_config());
    cfg.relay = Some(rc);
    let tls = Server::spawn(cfg).await;
    let (plain, tls) = match (plain, tls) {
        (Ok(a), Ok(b)) => (a, b),
        (a, b) => {
            rep.inconclusive("server-spawn-failed");
            rep.note(format!("{:?} {:?}", a.err().map(|e| e.to_string()), b.err().map(|e| e.to_string())));
            return;
        }
    };
    let mut targets = vec![
        Target { name: "relay-http-port", addr: plain.http_addr().unwrap(), conn: None },
        Target { name: "captive-portal-listener(tls-config)", addr: tls.http_addr().unwrap(), conn: None },
    ];
    if exhaustive {
        let cases = exhaustive_cases(rng);
        for t in targets.iter_mut() {
            for c in &cases {
                check_case(rep, l, t, c, true).await;
            }
            bump(l, "exhaustive.sweeps-completed");
        }
    }
    for i in 0..n_random {
        let c = random_case(rng);
        let t = &mut targets[(i % 2) as usize];
        check_case(rep, l, t, &c, i < 200_000).await;
        if i % 512 == 0 && rep.violation_count() > 100 {
            break;
        }
    }
    drop(targets);
    let _ = tokio::time::timeout(Duration::from_secs(10), plain.shutdown()).await;
    let _ = tokio::time::timeout(Duration::from_secs(10), tls.shutdown()).await;
}

fn flush(rep: &Report, l: &Local) {
    for (k, v) in l {
        if k == "__evals" { rep.evals(*v) } else { rep.count(k, *v) }
    }
}

fn main() {
    let a = args();
    let rep = Report::new(
        "C13",
        "exhaustive: lengths 0..=80 of valid characters and every byte 0x20..=0xFF (except DEL) alone / at start / middle / end / at position 63; seeded: random lengths (0,1,62..65,..80), one odd byte, padding, random bytes, control bytes, header-name case, duplicate and missing header; against /generate_204 of a plain relay Server and of the captive-portal listener of a TLS-configured Server. non-trivial = distinct (target, length, position and value of the first invalid byte, generator) of single-header requests that were judged",
        &a,
    );
    if let Some(p) = &a.replay {
        let v: Value = serde_json::from_str(&std::fs::read_to_string(p).unwrap()).unwrap();
        let r = v["replay"].clone();
        let unhex = |s: &str| -> Vec<u8> { (0..s.len() / 2).map(|i| u8::from_str_radix(&s[2 * i..2 * i + 2], 16).unwrap()).collect() };
        let c = Case { headers: r["headers"].as_array().unwrap().iter().map(|h| (h["name"].as_str().unwrap().to_string(), unhex(h["hex"].as_str().unwrap()))).collect(), how: "replay" };
        let rt = tokio::runtime::Builder::new_multi_thread().worker_threads(2).enable_all().build().unwrap();
        let mut l = Local::new();
        rt.block_on(async {
            let mut cfg = ServerConfig::default();
            let mut rc = RelayConfig::new((std::net::Ipv4Addr::LOCALHOST, 0));
            if r["target"].as_str() != Some("relay-http-port") {
                rc.tls = Some(iroh_relay::server::testing::tls_config());
            }
            cfg.relay = Some(rc);
            let s = Server::spawn(cfg).await.unwrap();
            let mut t = Target { name: if r["target"].as_str() == Some("relay-http-port") { "relay-http-port" } else { "captive-portal-listener(tls-config)" }, addr: s.http_addr().unwrap(), conn: None };
            check_case(&rep, &mut l, &mut t, &c, true).await;
            drop(t);
            let _ = tokio::time::timeout(Duration::from_secs(10), s.shutdown()).await;
        });
        flush(&rep, &l);
        rep.finish();
        return;
    }
    let threads = a.pick(2, 8) as u64;
    let n_random = a.pick(40_000u64, 5_000_000u64);
    std::thread::scope(|s| {
        for shard in 0..threads {
            let rep = &rep;
            let a = &a;
            s.spawn(move || {
                let mut rng = Rng::derive(a.seed, "C13", shard);
                let mut l = Local::new();
                let r = catch(|| {
                    let rt = tokio::runtime::Builder::new_multi_thread().worker_threads(2).enable_all().build().unwrap();
                    rt.block_on(run_all(rep, &mut l, &mut rng, n_random, shard == 0));
                });
                if let Err(p) = r {
                    rep.violation(&format!("C13:panic@{}", common::short_loc(&p)), p, json!({"shard": shard}));
                }
                flush(rep, &l);
            });
        }
    });
    rep.set_extra("exhaustive_part", json!({"lengths": [0, 80], "bytes": "0x20..=0xFF except 0x7F at 5 positions", "targets": 2, "complete": rep.counter("exhaustive.sweeps-completed") == 2}));
    for k in [
        "ok.echoed.valid-len-1", "ok.echoed.valid-len-63", "ok.echoed.valid-len-10..62", "ok.not-echoed.invalid-length-64",
        "ok.not-echoed.invalid-too-long", "ok.not-echoed.invalid-empty", "ok.not-echoed.invalid-ascii-char-outside-set",
        "ok.not-echoed.invalid-non-ascii-byte", "ok.not-echoed.invalid-inner-whitespace", "ok.missing-header.no-response",
        "ctl.server-alive-afterwards",
    ] {
        rep.require(k, 4);
    }
    rep.require("exhaustive.sweeps-completed", 2);
    rep.finish();
}
