//! C33 — pkarr timestamps are strictly increasing across threads.
//!
//! Every call of the real `iroh_dns::pkarr::Timestamp::now()` is bracketed by two draws from
//! one global sequence counter (`call_seq` before, `ret_seq` after).  The offline oracle over
//! the recorded history is the statement itself:
//!
//!  * if call A returned before call B was invoked (`ret_seq(A) < call_seq(B)`) then
//!    `ts(A) < ts(B)`;
//!  * no two calls return the same timestamp (needed for any real-time-consistent total order
//!    of concurrent calls to be strictly increasing).
//!
//! Workloads: (A) free-running threads on the real clock, many short barrier-started rounds;
//! (B) the same under the `verif-hooks` clock override, where every clock reading is scripted
//! per thread: stalls, jumps back by 1 µs … a year … to 0, forward jumps, readings around
//! 2^62 and near the top of the u64 range; (C) deterministic single-thread scripts.  The share
//! of results produced by the clock branch vs. the `last + 1` branch is measured.

use std::{
    cell::RefCell,
    sync::{
        Arc, Barrier,
        atomic::{AtomicU64, Ordering},
    },
};

use common::{Report, Rng, args};
use iroh_dns::{pkarr::Timestamp, verif_hooks::clock};
use serde_json::{Value, json};

static SEQ: AtomicU64 = AtomicU64::new(1);

#[derive(Clone, Copy, Debug)]
struct Ev {
    call: u64,
    ret: u64,
    ts: u64,
    thread: u16,
    /// scripted clock reading (u64::MAX = real clock, unknown)
    reading: u64,
}

/// Headroom below u64::MAX that scripted readings never enter: once a timestamp of u64::MAX
/// has been returned no implementation can return a greater one, so the property is only
/// meaningful while `reading + number of calls` stays representable.
const TOP: u64 = u64::MAX - (1 << 40);

thread_local! {
    static SCRIPT: RefCell<Option<Script>> = const { RefCell::new(None) };
    static LAST_READING: RefCell<u64> = const { RefCell::new(u64::MAX) };
}

/// Per-thread generator of clock readings.
struct Script {
    rng: Rng,
    /// the reading handed out last
    cur: u64,
    /// the timestamp this thread got back last (its best knowledge of the global last value)
    last_ts: u64,
    ceiling: u64,
    fixed: Option<Vec<u64>>,
    pos: usize,
}

impl Script {
    fn next(&mut self) -> u64 {
        if let Some(f) = &self.fixed {
            let r = f[self.pos % f.len()];
            self.pos += 1;
            return r;
        }
        let r = &mut self.rng;
        let base = self.last_ts;
        self.cur = match r.below(20) {
            0..=3 => self.cur,                                   // stalled clock: same reading again
            4..=8 => base.saturating_add(1 + r.below(40)),       // slightly ahead of the last value
            9 => base.saturating_add(r.below(1_000_000)),        // up to a second ahead
            10 => base,                                          // exactly the last value
            11 | 12 => base.saturating_sub(1 + r.below(3)),      // just behind
            13 | 14 => base.saturating_sub(r.below(2_000_000)),  // up to 2 s back
            15 => base.saturating_sub(31_536_000_000_000),       // a year back
            16 => *r.pick(&[0u64, 1, 2]),                        // clock reset to the epoch
            17 => r.below(base.max(1)),                          // anywhere in the past
            18 if r.below(2000) == 0 => base.saturating_add(r.below(3_600_000_000)), // rare: up to an hour ahead
            _ => self.cur.saturating_add(r.below(10)),
        };
        self.cur = self.cur.min(self.ceiling);
        self.cur
    }
}

fn install_override() {
    clock::set_clock_override(Some(Arc::new(|| {
        let r = SCRIPT.with(|s| s.borrow_mut().as_mut().map(|s| s.next()));
        // a thread without a script (none in this monitor) falls back to 0 = "clock far behind"
        let r = r.unwrap_or(0);
        LAST_READING.with(|l| *l.borrow_mut() = r);
        r
    })));
}

fn one_call(thread: u16, scripted: bool) -> Ev {
    let call = SEQ.fetch_add(1, Ordering::SeqCst);
    let ts = Timestamp::now().as_micros();
    let ret = SEQ.fetch_add(1, Ordering::SeqCst);
    let reading = if scripted {
        SCRIPT.with(|s| {
            if let Some(s) = s.borrow_mut().as_mut() {
                s.last_ts = ts;
            }
        });
        LAST_READING.with(|l| *l.borrow())
    } else {
        u64::MAX
    };
    Ev { call, ret, ts, thread, reading }
}

/// Runs one barrier-started round; returns all events.
fn round(threads: usize, calls: usize, scripted: Option<(u64, u64, u64)>, fixed: Option<Vec<Vec<u64>>>) -> Vec<Ev> {
    let barrier = Arc::new(Barrier::new(threads));
    let mut out = Vec::with_capacity(threads * calls);
    std::thread::scope(|s| {
        let hs: Vec<_> = (0..threads)
            .map(|t| {
                let barrier = barrier.clone();
                let fixed = fixed.as_ref().map(|f| f[t].clone());
                s.spawn(move || {
                    if let Some((seed, start, ceiling)) = scripted {
                        SCRIPT.with(|sc| {
                            *sc.borrow_mut() = Some(Script { rng: Rng::derive(seed, "C33-script", t as u64), cur: start.min(ceiling), last_ts: start.min(ceiling), ceiling, fixed, pos: 0 })
                        });
                    }
                    let mut v = Vec::with_capacity(calls);
                    barrier.wait();
                    for _ in 0..calls {
                        v.push(one_call(t as u16, scripted.is_some()));
                    }
                    v
                })
            })
            .collect();
        for h in hs {
            out.extend(h.join().expect("worker"));
        }
    });
    out
}

struct Carry {
    /// greatest timestamp of all earlier rounds and the ret_seq of the call that produced it
    max_ts: u64,
    max_ret: u64,
}

/// The oracle. `evs` is one round; all earlier rounds had returned before it started.
fn judge(rep: &Report, phase: &str, evs: &mut [Ev], carry: &mut Carry, replay: &Value) -> bool {
    rep.count("calls", evs.len() as u64);
    rep.count(&format!("calls.{phase}"), evs.len() as u64);
    let mut ok = true;
    evs.sort_by_key(|e| (e.ts, e.call));
    // uniqueness
    for w in evs.windows(2) {
        if w[0].ts == w[1].ts {
            ok = false;
            rep.violation(
                "C33:duplicate-timestamp",
                format!("phase {phase}: timestamp {} returned twice: thread {} (call {}, ret {}) and thread {} (call {}, ret {})", w[0].ts, w[0].thread, w[0].call, w[0].ret, w[1].thread, w[1].call, w[1].ret),
                replay.clone(),
            );
            break;
        }
    }
    // against everything that returned in earlier rounds
    if let Some(first) = evs.first() {
        if carry.max_ret != 0 && first.ts <= carry.max_ts {
            ok = false;
            rep.violation(
                "C33:not-increasing:across-rounds",
                format!("phase {phase}: timestamp {} (call {}) is not greater than {} returned earlier (ret {})", first.ts, first.call, carry.max_ts, carry.max_ret),
                replay.clone(),
            );
        }
    }
    // real-time order inside the round: going down in ts, every call must have been invoked
    // before the earliest return among the calls with a greater-or-equal timestamp
    let mut min_ret = u64::MAX;
    let mut min_ret_ev: Option<Ev> = None;
    for e in evs.iter().rev() {
        if min_ret < e.call {
            ok = false;
            let a = min_ret_ev.unwrap();
            rep.violation(
                "C33:not-increasing:real-time-order",
                format!("phase {phase}: thread {} got {} (call {}, ret {}) and only afterwards thread {} called (call {}) and got {}", a.thread, a.ts, a.call, a.ret, e.thread, e.call, e.ts),
                replay.clone(),
            );
            break;
        }
        if e.ret < min_ret {
            min_ret = e.ret;
            min_ret_ev = Some(*e);
        }
    }
    // evidence: branches and interleaving
    let mut switches = 0u64;
    let mut lin = Vec::with_capacity(evs.len().min(4096));
    for (i, e) in evs.iter().enumerate() {
        if i > 0 {
            let p = &evs[i - 1];
            if p.thread != e.thread {
                switches += 1;
            }
            rep.count(if e.ts == p.ts + 1 { "adjacent.diff_1" } else { "adjacent.gap" }, 1);
        }
        if lin.len() < 4096 {
            lin.push(e.thread as u8);
        }
        if e.reading != u64::MAX {
            rep.count(
                if e.ts == e.reading {
                    "branch.clock_reading_used"
                } else if e.ts > e.reading {
                    "branch.last_plus_one"
                } else {
                    "branch.below_reading"
                },
                1,
            );
        }
    }
    rep.count("thread_switches_in_timestamp_order", switches);
    if let Some(last) = evs.last() {
        if last.ts >= carry.max_ts {
            carry.max_ts = last.ts;
            carry.max_ret = last.ret;
        }
    }
    if ok && (switches >= 2 || phase.starts_with("script")) {
        lin.extend_from_slice(phase.as_bytes());
        if phase.starts_with("script") {
            for e in evs.iter() {
                lin.extend_from_slice(&e.ts.to_le_bytes());
            }
        }
        rep.nontrivial(&lin);
    }
    ok
}

fn main() {
    let a = args();
    let rep = Report::new(
        "C33",
        "histories of Timestamp::now() calls bracketed by a global sequence counter: barrier-started multi-thread rounds on the real clock and under a scripted clock (stalls, backward jumps of 1us..1 year..to 0, forward jumps, ceilings now / 2^62 / u64::MAX-2^40), plus deterministic single-thread scripts; non-trivial = distinct round whose timestamp order interleaves the threads (>=2 thread switches), or distinct scripted sequence",
        &a,
    );
    rep.assumption("scripted clock readings stay below u64::MAX - 2^40: once u64::MAX has been returned no greater timestamp exists");
    let miri = rep.is_miri();
    let mut carry = Carry { max_ts: 0, max_ret: 0 };
    let mut rng = Rng::derive(a.seed, "C33", 0);

    let (threads, rounds, calls) = if miri { (3usize, 1u64, 5usize) } else { a.pick((8, 150, 2_000), (16, 1_200, 4_000)) };
    let only: Option<String> = a.replay.as_ref().map(|p| {
        let v: Value = serde_json::from_str(&std::fs::read_to_string(p).unwrap()).unwrap();
        v["replay"]["phase"].as_str().unwrap_or("").to_string()
    });
    let want = |p: &str| only.as_deref().is_none_or(|o| o == p);

    // ---- (C) deterministic single-thread scripts first (exact replay), override installed
    install_override();
    let now_us = std::time::SystemTime::now().duration_since(std::time::UNIX_EPOCH).map(|d| d.as_micros() as u64).unwrap_or(1_700_000_000_000_000);
    if want("script") {
        let scripts: Vec<Vec<u64>> = vec![
            vec![now_us; 8],
            vec![now_us + 10, now_us + 9, now_us + 8, now_us + 7, 0, 1, now_us + 11, now_us + 11],
            vec![5, 5, 5, 4, 3, 1 << 20, (1 << 20) - 1, 1 << 20],
            vec![now_us + 100, now_us + 100 - 31_536_000_000_000, now_us + 101, now_us + 50, now_us + 102],
        ];
        for (i, sc) in scripts.into_iter().enumerate() {
            rep.eval();
            let n = sc.len();
            let replay = json!({"phase": "script", "index": i, "readings": sc});
            let mut evs = round(1, n, Some((a.seed, 0, TOP)), Some(vec![sc]));
            judge(&rep, "script", &mut evs, &mut carry, &replay);
            if rep.want_sample() {
                evs.sort_by_key(|e| e.call);
                rep.sample(json!({"phase": "script", "readings_and_results": evs.iter().map(|e| json!([e.reading, e.ts])).collect::<Vec<_>>()}));
            }
        }
    }
    // ---- (A) real clock
    clock::set_clock_override(None);
    if want("real-clock") && !miri {
        for r in 0..rounds {
            rep.eval();
            let replay = json!({"phase": "real-clock", "threads": threads, "calls": calls, "round": r});
            let mut evs = round(threads, calls, None, None);
            judge(&rep, "real-clock", &mut evs, &mut carry, &replay);
        }
    }
    // ---- (B) scripted clock, ceilings rising (LAST only ever goes up)
    install_override();
    let ceilings: [(&str, u64); 3] = [("scripted-around-now", now_us + 2_000_000_000_000_000), ("scripted-around-2^62", 1 << 62), ("scripted-near-top", TOP)];
    for (phase, ceiling) in ceilings {
        if !want(phase) {
            continue;
        }
        let n_rounds = if miri { 1 } else { rounds / 2 };
        for r in 0..n_rounds {
            rep.eval();
            let script_seed = rng.next_u64();
            // the first round of a phase starts 10^12 us below the phase ceiling (a forward jump of
            // the clock), later rounds around the greatest timestamp handed out so far
            // (2 * 10^15 us = 63 years of room, so readings do not saturate at the ceiling); the
            // last round of a phase starts right below the ceiling, where all readings saturate
            let base = if r + 1 == n_rounds { ceiling - 1_000_000 } else { carry.max_ts.max(ceiling - 2_000_000_000_000_000) };
            let start = match rng.below(3) {
                0 => base,
                1 => base.saturating_sub(rng.below(5_000_000)),
                _ => base.saturating_add(rng.below(5_000_000)),
            };
            let replay = json!({"phase": phase, "threads": threads, "calls": calls, "round": r, "script_seed": script_seed, "start": start, "ceiling": ceiling});
            let mut evs = round(threads, calls, Some((script_seed, start, ceiling)), None);
            judge(&rep, phase, &mut evs, &mut carry, &replay);
        }
    }
    clock::set_clock_override(None);
    if !miri && only.is_none() {
        rep.require("calls.real-clock", 100_000);
        rep.require("calls.scripted-around-now", 50_000);
        rep.require("calls.scripted-near-top", 50_000);
        rep.require("branch.clock_reading_used", 100);
        rep.require("branch.last_plus_one", 10_000);
        rep.require("thread_switches_in_timestamp_order", 10_000);
    }
    rep.finish();
}
