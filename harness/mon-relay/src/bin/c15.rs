//! C15 — relay dialing tries every resolved address and returns the first success.
//!
//! System under test: the real `client::tls::dial_happy_eyeballs` (hook `verif_hooks::dial`:
//! pass-through + a connector shim for `TcpStream::connect`; the per-attempt timeout, the
//! queue, the timers and `pop_family` are the original code) over the real
//! `DnsResolver::resolve_host_all` with a scripted `Resolver` (public trait).
//!
//! Everything runs in tokio *virtual time* (`start_paused`): resolver answers arrive after
//! scripted latencies, attempts succeed / fail after scripted delays or hang; successful
//! attempts hand out duplicates of pre-established loopback TCP connections (no I/O is in
//! flight while virtual time runs) whose local port identifies the dialled address.
//!
//! Event log (one thread, so a total order): lookup start / resolved / resolve-error /
//! lookup dropped, `dial.queue_push` (hook event: the dial loop received an address from the
//! resolution stream), attempt start / done(ok|err) / dropped, returned.
//! Oracle (from the statement):
//!  1. `Ok(A)`: A was attempted, its success completed, and no other attempt's success
//!     completed at a strictly earlier virtual instant.
//!  2. `Err`: both lookups had finished (answer, error, or cut by the DNS timeout — never cut
//!     earlier); every resolved address was attempted; every attempt failed (error, or cut
//!     no earlier than the per-attempt timeout); no attempt had succeeded.
//!  3. first attempt: if a preferred-family address resolved no later than 50 ms (resolution
//!     delay; boundary not generated) after the first non-preferred one, the first attempt is
//!     in the preferred family.
//!  4. alternation: if, when attempt i+1 starts, the dial loop has received untried addresses
//!     of both families, attempt i+1 is not in the family of attempt i.
//!  5. no address is attempted twice or before it resolved; the dial terminates within the
//!     virtual-time bound DNS timeout + (n+1) x (attempt timeout + attempt delay) + 1 s.

use std::{
    cell::RefCell,
    collections::BTreeMap,
    net::{IpAddr, Ipv4Addr, Ipv6Addr, SocketAddr},
    sync::Arc,
    time::Duration,
};

use common::{Report, Rng, args};
use iroh_dns::dns::{BoxIter, DnsError, DnsResolver, Resolver, TxtRecordData};
use iroh_relay::verif_hooks::dial;
use n0_future::boxed::BoxFuture;
use serde_json::{Value, json};
use tokio::time::Instant;

// ---------------------------------------------------------------------------------------
// scenario (also the replay format)

#[derive(Clone, Debug, PartialEq)]
enum Answer {
    /// answer with the address list after `ms`
    Ok(u64),
    /// fail after `ms`
    Err(u64),
    /// never answer (cut by the DNS timeout)
    Hang,
}

#[derive(Clone, Debug, PartialEq)]
enum Outcome {
    Succeed(u64),
    Fail(u64),
    Hang,
}

#[derive(Clone, Debug)]
struct Scenario {
    prefer_v6: bool,
    v4: (Vec<u8>, Answer),
    v6: (Vec<u8>, Answer),
    /// outcome per address: key "4.<n>" / "6.<n>"
    outcomes: BTreeMap<String, Outcome>,
}

fn v4addr(n: u8) -> IpAddr {
    IpAddr::V4(Ipv4Addr::new(192, 0, 2, n))
}
fn v6addr(n: u8) -> IpAddr {
    IpAddr::V6(Ipv6Addr::new(0x2001, 0xdb8, 0, 0, 0, 0, 0, n as u16))
}
fn key_of(ip: IpAddr) -> String {
    match ip {
        IpAddr::V4(a) => format!("4.{}", a.octets()[3]),
        IpAddr::V6(a) => format!("6.{}", a.segments()[7]),
    }
}

impl Scenario {
    fn to_json(&self) -> Value {
        let ans = |a: &Answer| match a {
            Answer::Ok(ms) => json!({"ok": ms}),
            Answer::Err(ms) => json!({"err": ms}),
            Answer::Hang => json!("hang"),
        };
        let out: BTreeMap<String, Value> = self
            .outcomes
            .iter()
            .map(|(k, o)| {
                (k.clone(), match o {
                    Outcome::Succeed(ms) => json!({"succeed": ms}),
                    Outcome::Fail(ms) => json!({"fail": ms}),
                    Outcome::Hang => json!("hang"),
                })
            })
            .collect();
        json!({"prefer_v6": self.prefer_v6, "v4": {"addrs": self.v4.0, "answer": ans(&self.v4.1)},
               "v6": {"addrs": self.v6.0, "answer": ans(&self.v6.1)}, "outcomes": out})
    }
    fn from_json(v: &Value) -> Scenario {
        let ans = |a: &Value| {
            if let Some(ms) = a.get("ok").and_then(|x| x.as_u64()) {
                Answer::Ok(ms)
            } else if let Some(ms) = a.get("err").and_then(|x| x.as_u64()) {
                Answer::Err(ms)
            } else {
                Answer::Hang
            }
        };
        let addrs = |a: &Value| a.as_array().unwrap().iter().map(|x| x.as_u64().unwrap() as u8).collect::<Vec<u8>>();
        let outcomes = v["outcomes"]
            .as_object()
            .unwrap()
            .iter()
            .map(|(k, o)| {
                let o = if let Some(ms) = o.get("succeed").and_then(|x| x.as_u64()) {
                    Outcome::Succeed(ms)
                } else if let Some(ms) = o.get("fail").and_then(|x| x.as_u64()) {
                    Outcome::Fail(ms)
                } else {
                    Outcome::Hang
                };
                (k.clone(), o)
            })
            .collect();
        Scenario {
            prefer_v6: v["prefer_v6"].as_bool().unwrap(),
            v4: (addrs(&v["v4"]["addrs"]), ans(&v["v4"]["answer"])),
            v6: (addrs(&v["v6"]["addrs"]), ans(&v["v6"]["answer"])),
            outcomes,
        }
    }
}

// ---------------------------------------------------------------------------------------
// event log (thread-local: the whole scenario runs on one thread)

#[derive(Clone, Debug, PartialEq)]
enum Ev {
    LookupStart { v6: bool },
    Resolved { v6: bool, addrs: Vec<IpAddr> },
    ResolveErr { v6: bool },
    LookupDropped { v6: bool },
    QueuePush { ip: IpAddr },
    AttemptStart { ip: IpAddr },
    AttemptDone { ip: IpAddr, ok: bool },
    AttemptDropped { ip: IpAddr },
}

thread_local! {
    static LOG: RefCell<Vec<(u64, Ev)>> = const { RefCell::new(Vec::new()) };
    static T0: RefCell<Option<Instant>> = const { RefCell::new(None) };
}

/// virtual microseconds since the scenario started
fn now_us() -> u64 {
    T0.with(|t| t.borrow().map(|t0| Instant::now().duration_since(t0).as_micros() as u64).unwrap_or(0))
}
fn log(ev: Ev) {
    let t = now_us();
    LOG.with(|l| l.borrow_mut().push((t, ev)));
}

// ---------------------------------------------------------------------------------------
// scripted resolver

#[derive(Debug, Clone)]
struct ScriptedResolver {
    sc: Arc<Scenario>,
}

struct DropLog {
    ev: Option<Ev>,
}
impl Drop for DropLog {
    fn drop(&mut self) {
        if let Some(ev) = self.ev.take() {
            log(ev);
        }
    }
}

async fn scripted_lookup(v6: bool, addrs: Vec<IpAddr>, answer: Answer) -> Result<Vec<IpAddr>, DnsError> {
    log(Ev::LookupStart { v6 });
    let mut guard = DropLog { ev: Some(Ev::LookupDropped { v6 }) };
    let res = match answer {
        Answer::Ok(ms) => {
            if ms > 0 {
                tokio::time::sleep(Duration::from_millis(ms)).await;
            }
            Ok(addrs)
        }
        Answer::Err(ms) => {
            if ms > 0 {
                tokio::time::sleep(Duration::from_millis(ms)).await;
            }
            Err(n0_error::e!(DnsError::NoResponse))
        }
        Answer::Hang => std::future::pending().await,
    };
    guard.ev = None;
    match &res {
        Ok(a) => log(Ev::Resolved { v6, addrs: a.clone() }),
        Err(_) => log(Ev::ResolveErr { v6 }),
    }
    res
}

impl Resolver for ScriptedResolver {
    fn lookup_ipv4(&self, _host: String) -> BoxFuture<Result<BoxIter<Ipv4Addr>, DnsError>> {
        let addrs: Vec<IpAddr> = self.sc.v4.0.iter().map(|n| v4addr(*n)).collect();
        let answer = self.sc.v4.1.clone();
        Box::pin(async move {
            let r = scripted_lookup(false, addrs, answer).await?;
            let it: BoxIter<Ipv4Addr> = Box::new(r.into_iter().filter_map(|ip| match ip {
                IpAddr::V4(a) => Some(a),
                _ => None,
            }));
            Ok(it)
        })
    }
    fn lookup_ipv6(&self, _host: String) -> BoxFuture<Result<BoxIter<Ipv6Addr>, DnsError>> {
        let addrs: Vec<IpAddr> = self.sc.v6.0.iter().map(|n| v6addr(*n)).collect();
        let answer = self.sc.v6.1.clone();
        Box::pin(async move {
            let r = scripted_lookup(true, addrs, answer).await?;
            let it: BoxIter<Ipv6Addr> = Box::new(r.into_iter().filter_map(|ip| match ip {
                IpAddr::V6(a) => Some(a),
                _ => None,
            }));
            Ok(it)
        })
    }
    fn lookup_txt(&self, _host: String) -> BoxFuture<Result<BoxIter<TxtRecordData>, DnsError>> {
        Box::pin(async move {
            let it: BoxIter<TxtRecordData> = Box::new(std::iter::empty());
            Ok(it)
        })
    }
    fn clear_cache(&self) {}
    fn reset(&self) -> Box<dyn Resolver> {
        Box::new(self.clone())
    }
}

// ---------------------------------------------------------------------------------------
// pre-established loopback connections

struct Pool {
    _listener: std::net::TcpListener,
    /// (client end, server end)
    conns: Vec<(std::net::TcpStream, std::net::TcpStream)>,
}

impl Pool {
    fn new(n: usize) -> Pool {
        let listener = std::net::TcpListener::bind((Ipv4Addr::LOCALHOST, 0)).expect("bind");
        let addr = listener.local_addr().unwrap();
        let mut conns = Vec::new();
        for _ in 0..n {
            let c = std::net::TcpStream::connect(addr).expect("connect");
            let (s, _) = listener.accept().expect("accept");
            conns.push((c, s));
        }
        Pool { _listener: listener, conns }
    }
    fn port(&self, i: usize) -> u16 {
        self.conns[i].0.local_addr().unwrap().port()
    }
}

/// index of an address in the pool: v4 n -> n-1, v6 n -> 3 + n-1
fn pool_index(ip: IpAddr) -> usize {
    match ip {
        IpAddr::V4(a) => (a.octets()[3] - 1) as usize,
        IpAddr::V6(a) => 3 + (a.segments()[7] - 1) as usize,
    }
}

// ---------------------------------------------------------------------------------------
// one scenario

struct Consts {
    dial_timeout: Duration,
    attempt_delay: Duration,
    resolution_delay: Duration,
    dns_timeout: Duration,
}

fn consts() -> Consts {
    let t: BTreeMap<&str, Duration> = dial::timeouts().into_iter().collect();
    Consts {
        dial_timeout: t["DIAL_ENDPOINT_TIMEOUT"],
        attempt_delay: t["CONNECTION_ATTEMPT_DELAY"],
        resolution_delay: t["RESOLUTION_DELAY"],
        dns_timeout: t["DNS_TIMEOUT"],
    }
}

fn is_v6(ip: &IpAddr) -> bool {
    ip.is_ipv6()
}

fn run_scenario(rep: &Report, rt: &tokio::runtime::Runtime, pool: &Arc<Pool>, c: &Consts, sc: &Scenario) {
    rep.eval();
    let replay = sc.to_json();
    let sc = Arc::new(sc.clone());
    LOG.with(|l| l.borrow_mut().clear());

    // connector
    let connector: dial::Connector = {
        let sc = sc.clone();
        let pool = pool.clone();
        Arc::new(move |addr: SocketAddr| {
            let ip = addr.ip();
            let outcome = sc.outcomes.get(&key_of(ip)).cloned().unwrap_or(Outcome::Fail(0));
            let pool = pool.clone();
            Box::pin(async move {
                log(Ev::AttemptStart { ip });
                let mut guard = DropLog { ev: Some(Ev::AttemptDropped { ip }) };
                let res = match outcome {
                    Outcome::Succeed(ms) => {
                        if ms > 0 {
                            tokio::time::sleep(Duration::from_millis(ms)).await;
                        }
                        let std_stream = pool.conns[pool_index(ip)].0.try_clone()?;
                        std_stream.set_nonblocking(true)?;
                        tokio::net::TcpStream::from_std(std_stream)
                    }
                    Outcome::Fail(ms) => {
                        if ms > 0 {
                            tokio::time::sleep(Duration::from_millis(ms)).await;
                        }
                        Err(std::io::Error::new(std::io::ErrorKind::ConnectionRefused, "scripted failure"))
                    }
                    Outcome::Hang => std::future::pending().await,
                };
                guard.ev = None;
                log(Ev::AttemptDone { ip, ok: res.is_ok() });
                res
            }) as dial::ConnectFuture
        })
    };
    dial::set_connector(Some(connector));

    let n_addrs = sc.v4.0.len() + sc.v6.0.len();
    let bound = c.dns_timeout + (c.dial_timeout + c.attempt_delay) * (n_addrs as u32 + 1) + Duration::from_secs(1);
    let resolver = DnsResolver::custom(ScriptedResolver { sc: sc.clone() });
    let url: url::Url = "https://relay.verif.invalid.:7443/".parse().unwrap();
    let prefer_v6 = sc.prefer_v6;
    let (result, t_ret) = rt.block_on(async {
        T0.with(|t| *t.borrow_mut() = Some(Instant::now()));
        let r = tokio::time::timeout(bound, dial::dial_happy_eyeballs(&resolver, &url, prefer_v6)).await;
        (r, now_us())
    });
    dial::set_connector(None);
    let events: Vec<(u64, Ev)> = LOG.with(|l| l.borrow().clone());
    // everything logged after the return instant (drops of cancelled futures) is ignored by
    // the oracle except where noted
    let n_at_return = events.len();
    let _ = n_at_return;

    macro_rules! viol {
        ($sig:expr, $($arg:tt)*) => {{
            rep.violation($sig, format!("{} | log: {}", format!($($arg)*), fmt_log(&events)), replay.clone());
            return;
        }};
    }

    let result = match result {
        Err(_elapsed) => viol!("C15:no-termination", "dial did not finish within the virtual bound {:?}", bound),
        Ok(r) => r,
    };

    // ---- derive facts from the log
    let starts: Vec<(usize, u64, IpAddr)> = events.iter().enumerate().filter_map(|(i, (t, e))| if let Ev::AttemptStart { ip } = e { Some((i, *t, *ip)) } else { None }).collect();
    let done_ok: Vec<(usize, u64, IpAddr)> = events.iter().enumerate().filter_map(|(i, (t, e))| if let Ev::AttemptDone { ip, ok: true } = e { Some((i, *t, *ip)) } else { None }).collect();
    let resolved_at = |v6: bool| -> Option<(usize, u64, Vec<IpAddr>)> {
        events.iter().enumerate().find_map(|(i, (t, e))| match e {
            Ev::Resolved { v6: f, addrs } if *f == v6 => Some((i, *t, addrs.clone())),
            _ => None,
        })
    };
    let lookup_end = |v6: bool| -> Option<(u64, &'static str)> {
        events.iter().find_map(|(t, e)| match e {
            Ev::Resolved { v6: f, .. } if *f == v6 => Some((*t, "resolved")),
            Ev::ResolveErr { v6: f } if *f == v6 => Some((*t, "error")),
            Ev::LookupDropped { v6: f } if *f == v6 => Some((*t, "dropped")),
            _ => None,
        })
    };
    let lookup_start = |v6: bool| -> Option<u64> {
        events.iter().find_map(|(t, e)| match e {
            Ev::LookupStart { v6: f } if *f == v6 => Some(*t),
            _ => None,
        })
    };

    // 5a. attempts: unique, only resolved addresses
    for (k, (i, _, ip)) in starts.iter().enumerate() {
        if starts[..k].iter().any(|(_, _, p)| p == ip) {
            viol!("C15:address-attempted-twice", "{ip} attempted twice");
        }
        let known = events[..*i].iter().any(|(_, e)| matches!(e, Ev::Resolved { addrs, .. } if addrs.contains(ip)));
        if !known {
            viol!("C15:attempt-of-unresolved-address", "{ip} attempted before any lookup returned it");
        }
    }

    // 3. first attempt in the preferred family
    if let Some((_, _, first_ip)) = starts.first() {
        let p = resolved_at(prefer_v6).filter(|(_, _, a)| !a.is_empty());
        let np = resolved_at(!prefer_v6).filter(|(_, _, a)| !a.is_empty());
        if let Some((_, t_p, _)) = &p {
            let within = match &np {
                None => true,
                Some((_, t_np, _)) => *t_p < *t_np + c.resolution_delay.as_micros() as u64,
            };
            if within {
                rep.count("first_attempt.preferred_resolved_within_delay", 1);
                if is_v6(first_ip) != prefer_v6 {
                    viol!("C15:first-attempt-not-preferred-family", "preferred family resolved at {} us (other family: {:?}), yet the first attempt went to {first_ip}", t_p, np.as_ref().map(|x| x.1));
                }
                if np.as_ref().map(|(_, t_np, _)| t_np < t_p).unwrap_or(false) {
                    rep.count("first_attempt.waited_for_preferred", 1);
                }
            } else {
                rep.count("first_attempt.preferred_too_late", 1);
            }
        } else {
            rep.count("first_attempt.preferred_never_resolved", 1);
        }
    }

    // 4. alternation, on what the dial loop had received (hook event dial.queue_push)
    for w in 1..starts.len() {
        let (i_cur, _, ip_cur) = starts[w];
        let (_, _, ip_prev) = starts[w - 1];
        let pushed: Vec<IpAddr> = events[..i_cur].iter().filter_map(|(_, e)| if let Ev::QueuePush { ip } = e { Some(*ip) } else { None }).collect();
        let tried: Vec<IpAddr> = starts[..w].iter().map(|s| s.2).collect();
        let untried: Vec<IpAddr> = pushed.into_iter().filter(|ip| !tried.contains(ip)).collect();
        let both = untried.iter().any(|ip| ip.is_ipv6()) && untried.iter().any(|ip| ip.is_ipv4());
        if both {
            rep.count("alternation.decisions_with_both_families_untried", 1);
            if is_v6(&ip_cur) == is_v6(&ip_prev) {
                viol!("C15:same-family-twice-while-both-untried", "attempt {} went to {ip_cur} right after {ip_prev} although the dial loop held untried addresses of both families: {:?}", w + 1, untried);
            }
        } else {
            rep.count("alternation.decisions_with_one_family", 1);
        }
    }

    match &result {
        Ok(stream) => {
            rep.count("result.ok", 1);
            let port = stream.local_addr().map(|a| a.port()).unwrap_or(0);
            let which: Vec<IpAddr> = done_ok.iter().map(|d| d.2).filter(|ip| pool.port(pool_index(*ip)) == port).collect();
            let Some(ip) = which.first().copied() else {
                viol!("C15:returned-stream-of-no-successful-attempt", "returned stream (local port {port}) belongs to no attempt that completed successfully");
            };
            let t_ip = done_ok.iter().find(|d| d.2 == ip).unwrap().1;
            if let Some(earlier) = done_ok.iter().find(|d| d.1 < t_ip) {
                viol!("C15:not-first-success", "returned {ip} (succeeded at {} us) although {} had succeeded at {} us", t_ip, earlier.2, earlier.1);
            }
            if done_ok.len() > 1 {
                rep.count("result.ok_with_several_successes_completed", 1);
            }
            if starts.len() > 1 {
                rep.count("result.ok_after_several_attempts", 1);
            }
        }
        Err(err) => {
            rep.count("result.err", 1);
            // 2a. resolution finished
            for v6 in [false, true] {
                match (lookup_start(v6), lookup_end(v6)) {
                    (None, _) => viol!("C15:error-without-lookup", "dial failed ({err}) but the {} lookup was never started", if v6 { "AAAA" } else { "A" }),
                    (Some(_), None) => viol!("C15:error-before-resolution-finished", "dial failed ({err}) while the {} lookup was still running", if v6 { "AAAA" } else { "A" }),
                    (Some(ts), Some((te, "dropped"))) => {
                        if te > t_ret || te < ts + c.dns_timeout.as_micros() as u64 {
                            viol!("C15:error-before-resolution-finished", "dial failed ({err}) at {t_ret} us; the {} lookup (started {ts} us) was abandoned at {te} us, before the DNS timeout", if v6 { "AAAA" } else { "A" });
                        }
                        rep.count("lookups.cut_by_dns_timeout", 1);
                    }
                    (Some(_), Some((te, _))) => {
                        if te > t_ret {
                            viol!("C15:error-before-resolution-finished", "lookup finished after the dial returned");
                        }
                    }
                }
            }
            // 2b. everything resolved was attempted
            for v6 in [false, true] {
                if let Some((_, _, addrs)) = resolved_at(v6) {
                    for a in addrs {
                        if !starts.iter().any(|s| s.2 == a) {
                            viol!("C15:error-with-untried-address", "dial failed ({err}) but resolved address {a} was never attempted");
                        }
                    }
                }
            }
            // 2c. every attempt failed
            if let Some(d) = done_ok.first() {
                viol!("C15:error-although-an-attempt-succeeded", "dial failed ({err}) although the attempt to {} succeeded at {} us", d.2, d.1);
            }
            for (i, ts, ip) in &starts {
                let end = events[*i..].iter().find_map(|(t, e)| match e {
                    Ev::AttemptDone { ip: p, ok } if p == ip => Some((*t, if *ok { "ok" } else { "err" })),
                    Ev::AttemptDropped { ip: p } if p == ip => Some((*t, "dropped")),
                    _ => None,
                });
                match end {
                    None => viol!("C15:error-while-attempt-in-flight", "dial failed ({err}) while the attempt to {ip} was still in flight"),
                    Some((te, "dropped")) => {
                        if te < ts + c.dial_timeout.as_micros() as u64 {
                            viol!("C15:error-while-attempt-in-flight", "dial failed ({err}); attempt to {ip} (started {ts} us) was abandoned at {te} us, before its timeout");
                        }
                        rep.count("attempts.cut_by_attempt_timeout", 1);
                    }
                    Some(_) => {}
                }
            }
            if starts.is_empty() {
                rep.count("result.err_nothing_resolved", 1);
            }
        }
    }
    rep.count("attempts.started", starts.len() as u64);
    rep.count_max("attempts.max_in_one_dial", starts.len() as u64);
    // overlapping attempts: an attempt started while an earlier one was unfinished
    let mut overlapping = false;
    for (k, (i, _, _)) in starts.iter().enumerate().skip(1) {
        for (j, _, ipj) in &starts[..k] {
            let ended = events[*j..*i].iter().any(|(_, e)| matches!(e, Ev::AttemptDone { ip, .. } | Ev::AttemptDropped { ip } if ip == ipj));
            if !ended {
                overlapping = true;
            }
        }
    }
    if overlapping {
        rep.count("dials.with_overlapping_attempts", 1);
    }
    let late = [false, true].iter().any(|v6| resolved_at(*v6).map(|(i, _, a)| !a.is_empty() && starts.first().map(|s| s.0 < i).unwrap_or(false)).unwrap_or(false));
    if late {
        rep.count("dials.family_resolved_after_first_attempt", 1);
    }
    // non-trivial: >= 2 attempts and both families involved in resolution
    let fams_resolved = [false, true].iter().filter(|v6| resolved_at(**v6).map(|x| !x.2.is_empty()).unwrap_or(false)).count();
    if starts.len() >= 2 && fams_resolved == 2 {
        // canonical form: the observed event order (kinds + addresses), which is the schedule
        let shape: Vec<String> = events
            .iter()
            .map(|(_, e)| match e {
                Ev::LookupStart { v6 } => format!("L{}", *v6 as u8),
                Ev::Resolved { v6, addrs } => format!("R{}:{}", *v6 as u8, addrs.len()),
                Ev::ResolveErr { v6 } => format!("E{}", *v6 as u8),
                Ev::LookupDropped { v6 } => format!("X{}", *v6 as u8),
                Ev::QueuePush { ip } => format!("q{}", key_of(*ip)),
                Ev::AttemptStart { ip } => format!("a{}", key_of(*ip)),
                Ev::AttemptDone { ip, ok } => format!("d{}{}", key_of(*ip), if *ok { "+" } else { "-" }),
                Ev::AttemptDropped { ip } => format!("x{}", key_of(*ip)),
            })
            .collect();
        rep.nontrivial_str(&format!("{}|{}|{}", prefer_v6, result.is_ok(), shape.join(" ")));
        if rep.want_sample() && starts.len() >= 3 {
            rep.sample(json!({"scenario": replay, "result": match &result { Ok(s) => format!("ok port {}", s.local_addr().map(|a| a.port()).unwrap_or(0)), Err(e) => format!("err {e}") },
                "attempt_order": starts.iter().map(|s| format!("{}@{}us", s.2, s.1)).collect::<Vec<_>>(), "returned_at_us": t_ret}));
        }
    }
}

fn fmt_log(events: &[(u64, Ev)]) -> String {
    events
        .iter()
        .map(|(t, e)| {
            let s = match e {
                Ev::LookupStart { v6 } => format!("lookup{}", if *v6 { 6 } else { 4 }),
                Ev::Resolved { v6, addrs } => format!("resolved{}{:?}", if *v6 { 6 } else { 4 }, addrs.iter().map(|a| key_of(*a)).collect::<Vec<_>>()),
                Ev::ResolveErr { v6 } => format!("resolve-err{}", if *v6 { 6 } else { 4 }),
                Ev::LookupDropped { v6 } => format!("lookup-dropped{}", if *v6 { 6 } else { 4 }),
                Ev::QueuePush { ip } => format!("push {}", key_of(*ip)),
                Ev::AttemptStart { ip } => format!("attempt {}", key_of(*ip)),
                Ev::AttemptDone { ip, ok } => format!("done {} {}", key_of(*ip), if *ok { "OK" } else { "ERR" }),
                Ev::AttemptDropped { ip } => format!("dropped {}", key_of(*ip)),
            };
            format!("{}ms:{s}", *t as f64 / 1000.0)
        })
        .collect::<Vec<_>>()
        .join("; ")
}

// ---------------------------------------------------------------------------------------
// generator

/// Latencies chosen so that no difference between two of them equals the 50 ms resolution
/// delay and none coincides with a 250 ms / 1500 ms / 3000 ms timer of the dial loop.
const DNS_LAT: [u64; 6] = [0, 10, 40, 65, 300, 1100];
const ATT_DELAY: [u64; 6] = [0, 5, 100, 400, 1300, 2000];

fn gen_answer(rng: &mut Rng) -> Answer {
    match rng.below(10) {
        0 => Answer::Hang,
        1 | 2 => Answer::Err(*rng.pick(&DNS_LAT)),
        _ => Answer::Ok(*rng.pick(&DNS_LAT)),
    }
}

fn gen_scenario(rng: &mut Rng, prefer_v6: bool) -> Scenario {
    let pick_addrs = |rng: &mut Rng| -> Vec<u8> {
        let n = match rng.below(8) {
            0 => 0,
            1 | 2 => 1,
            3 | 4 | 5 => 2,
            _ => 3,
        };
        let mut v: Vec<u8> = vec![1, 2, 3];
        rng.shuffle(&mut v);
        v.truncate(n);
        v
    };
    let v4 = (pick_addrs(rng), gen_answer(rng));
    let v6 = (pick_addrs(rng), gen_answer(rng));
    let mut outcomes = BTreeMap::new();
    // bias: mostly failing/hanging attempts so that dials go through many addresses
    let success_rate = rng.below(4); // 0: none succeed
    for (fam, (addrs, _)) in [(4, &v4), (6, &v6)] {
        for n in addrs {
            let o = if rng.below(4) < success_rate {
                Outcome::Succeed(*rng.pick(&ATT_DELAY))
            } else if rng.chance(1, 4) {
                Outcome::Hang
            } else {
                Outcome::Fail(*rng.pick(&ATT_DELAY))
            };
            outcomes.insert(format!("{fam}.{n}"), o);
        }
    }
    Scenario { prefer_v6, v4, v6, outcomes }
}

// ---------------------------------------------------------------------------------------
// real-socket smoke: with no connector registered the hook must leave the behaviour alone

#[derive(Debug, Clone)]
struct FixedResolver {
    v4: Vec<Ipv4Addr>,
    v6: Vec<Ipv6Addr>,
}
impl Resolver for FixedResolver {
    fn lookup_ipv4(&self, _host: String) -> BoxFuture<Result<BoxIter<Ipv4Addr>, DnsError>> {
        let it: BoxIter<Ipv4Addr> = Box::new(self.v4.clone().into_iter());
        Box::pin(std::future::ready(Ok(it)))
    }
    fn lookup_ipv6(&self, _host: String) -> BoxFuture<Result<BoxIter<Ipv6Addr>, DnsError>> {
        let it: BoxIter<Ipv6Addr> = Box::new(self.v6.clone().into_iter());
        Box::pin(std::future::ready(Ok(it)))
    }
    fn lookup_txt(&self, _host: String) -> BoxFuture<Result<BoxIter<TxtRecordData>, DnsError>> {
        let it: BoxIter<TxtRecordData> = Box::new(std::iter::empty());
        Box::pin(std::future::ready(Ok(it)))
    }
    fn clear_cache(&self) {}
    fn reset(&self) -> Box<dyn Resolver> {
        Box::new(self.clone())
    }
}

fn real_socket_smoke(rep: &Report) {
    let rt = tokio::runtime::Builder::new_current_thread().enable_all().build().unwrap();
    dial::set_connector(None);
    rt.block_on(async {
        // a port on which both 127.0.0.1 and ::1 listen, and one on which nobody listens
        let l4 = tokio::net::TcpListener::bind((Ipv4Addr::LOCALHOST, 0)).await.unwrap();
        let port = l4.local_addr().unwrap().port();
        let l6 = tokio::net::TcpListener::bind((Ipv6Addr::LOCALHOST, port)).await;
        let dead = {
            let l = std::net::TcpListener::bind((Ipv4Addr::LOCALHOST, 0)).unwrap();
            l.local_addr().unwrap().port()
        };
        let lo2 = Ipv4Addr::new(127, 0, 0, 2);
        let cases: Vec<(&str, Vec<Ipv4Addr>, Vec<Ipv6Addr>, u16, bool, Option<Vec<IpAddr>>)> = vec![
            ("v4-only", vec![Ipv4Addr::LOCALHOST], vec![], port, false, Some(vec![IpAddr::V4(Ipv4Addr::LOCALHOST)])),
            ("v4-second-address", vec![lo2, Ipv4Addr::LOCALHOST], vec![], port, false, Some(vec![IpAddr::V4(Ipv4Addr::LOCALHOST)])),
            ("nothing-listens", vec![Ipv4Addr::LOCALHOST, lo2], vec![], dead, false, None),
            ("nothing-resolves", vec![], vec![], port, true, None),
        ];
        for (name, v4, v6, p, prefer6, want) in cases {
            let resolver = DnsResolver::custom(FixedResolver { v4, v6 });
            let url: url::Url = format!("http://relay.verif.invalid.:{p}/").parse().unwrap();
            let r = dial::dial_happy_eyeballs(&resolver, &url, prefer6).await;
            let got = r.as_ref().ok().and_then(|s| s.peer_addr().ok()).map(|a| a.ip());
            let ok = match (&want, &got) {
                (None, None) => true,
                (Some(w), Some(g)) => w.contains(g),
                _ => false,
            };
            rep.count("smoke.real_socket_cases", 1);
            if !ok {
                rep.violation(&format!("C15:real-socket-smoke:{name}"), format!("expected peer {want:?}, got {got:?} ({:?})", r.as_ref().err().map(|e| e.to_string())), json!({"smoke": name}));
            }
        }
        if let Ok(l6) = l6 {
            for prefer6 in [false, true] {
                let resolver = DnsResolver::custom(FixedResolver { v4: vec![Ipv4Addr::LOCALHOST], v6: vec![Ipv6Addr::LOCALHOST] });
                let url: url::Url = format!("http://relay.verif.invalid.:{port}/").parse().unwrap();
                let r = dial::dial_happy_eyeballs(&resolver, &url, prefer6).await;
                let got = r.as_ref().ok().and_then(|s| s.peer_addr().ok()).map(|a| a.ip());
                let want = if prefer6 { IpAddr::V6(Ipv6Addr::LOCALHOST) } else { IpAddr::V4(Ipv4Addr::LOCALHOST) };
                rep.count("smoke.real_socket_cases", 1);
                if got != Some(want) {
                    rep.violation("C15:real-socket-smoke:dual-stack-preference", format!("prefer_v6={prefer6}: expected {want}, got {got:?}"), json!({"smoke": "dual-stack"}));
                }
            }
            drop(l6);
        } else {
            rep.note("::1 not bindable: dual-stack smoke skipped");
        }
        drop(l4);
    });
}

fn main() {
    let a = args();
    let rep = Report::new(
        "C15",
        "seeded scenarios (0-3 addresses per family, per-family DNS answer ok/error/hang with latency in {0,10,40,65,300,1100} ms, per-address attempt outcome success/failure after {0,5,100,400,1300,2000} ms or hang) x both family preferences through the real dial_happy_eyeballs in virtual time; non-trivial = distinct observed event order of a dial with >=2 attempts in which both families resolved addresses",
        &a,
    );
    // hook event -> thread-local log
    iroh_base::verif_hooks::set_event_handler(Some(Arc::new(|name, fields| {
        if name == "dial.queue_push"
            && let Some((_, v)) = fields.iter().find(|(k, _)| *k == "ip")
            && let Ok(ip) = v.parse::<IpAddr>()
        {
            log(Ev::QueuePush { ip });
        }
    })));
    let c = consts();
    rep.set_extra("timeouts_ms", json!({"dial": c.dial_timeout.as_millis() as u64, "attempt_delay": c.attempt_delay.as_millis() as u64,
        "resolution_delay": c.resolution_delay.as_millis() as u64, "dns": c.dns_timeout.as_millis() as u64}));

    if let Some(p) = &a.replay {
        let v: Value = serde_json::from_str(&std::fs::read_to_string(p).unwrap()).unwrap();
        if v["replay"].get("smoke").is_some() {
            real_socket_smoke(&rep);
        } else {
            let sc = Scenario::from_json(&v["replay"]);
            let rt = tokio::runtime::Builder::new_current_thread().enable_all().start_paused(true).build().unwrap();
            let pool = Arc::new(Pool::new(6));
            run_scenario(&rep, &rt, &pool, &c, &sc);
        }
        rep.finish();
        return;
    }

    let threads = a.pick(4, 14) as u64;
    let per_thread = a.pick(15_000u64, 400_000);
    std::thread::scope(|s| {
        for t in 0..threads {
            let rep = &rep;
            let c = &c;
            let seed = a.seed;
            s.spawn(move || {
                let rt = tokio::runtime::Builder::new_current_thread().enable_all().start_paused(true).build().unwrap();
                let pool = Arc::new(Pool::new(6));
                let mut rng = Rng::derive(seed, "C15", t);
                for _ in 0..per_thread {
                    let sc = gen_scenario(&mut rng, false);
                    // the same scenario under both preferences
                    run_scenario(rep, &rt, &pool, c, &sc);
                    let mut sc6 = sc.clone();
                    sc6.prefer_v6 = true;
                    run_scenario(rep, &rt, &pool, c, &sc6);
                    if rep.violation_count() > 100 {
                        break;
                    }
                }
            });
        }
    });
    real_socket_smoke(&rep);
    rep.require("result.ok", 200);
    rep.require("result.err", 200);
    rep.require("result.ok_after_several_attempts", 100);
    rep.require("first_attempt.waited_for_preferred", 50);
    rep.require("first_attempt.preferred_too_late", 50);
    rep.require("alternation.decisions_with_both_families_untried", 200);
    rep.require("dials.with_overlapping_attempts", 100);
    rep.require("dials.family_resolved_after_first_attempt", 50);
    rep.require("attempts.cut_by_attempt_timeout", 20);
    rep.require("lookups.cut_by_dns_timeout", 20);
    rep.require("smoke.real_socket_cases", 4);
    rep.finish();
}
