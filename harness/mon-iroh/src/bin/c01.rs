//! C01 — dialing by public key authenticates the remote endpoint.
//!
//! Four layers, all against the real code:
//!  1. *End to end, honest peers*: pool of real loopback endpoints; for every ordered pair
//!     (dialed id K_i, listener j) a dialer connects to `K_i @ addr_j`.  A completed dial
//!     with i != j refutes the property; on completion `remote_id()` on both sides must be
//!     the key the other side holds; the listener must not obtain a connection from a
//!     mismatched dial.
//!  2. *End to end, hostile server*: a hand-configured rustls/noq QUIC server that holds K'
//!     and presents, per strategy, its own raw key, K's raw key (signing with K' or with
//!     garbage), an X.509 certificate, a two-element raw-key chain, or a small-order key
//!     with the signature that only non-strict Ed25519 verification accepts.  Control: the
//!     same server holding K itself must be connectable (shows the rig works).
//!  3. *Verifier boundary* (hook `iroh::verif_hooks::tls`): the real Server/Client
//!     certificate verifiers against a reference oracle written from the statement, over
//!     generated (server name, end entity, intermediates) and (message, cert, scheme,
//!     signature) tuples.
//!  4. *Name codec*: `decode(encode(id)) == id`; `decode(s)` is `Some` only for strings of
//!     the shape `<base32 of 32 key bytes>.iroh.invalid`.

#![allow(dead_code)]
#[path = "../epkit.rs"]
mod epkit;

use std::{
    net::{Ipv4Addr, SocketAddr},
    sync::{Arc, Mutex},
    time::Duration,
};

use common::{Report, Rng, args, catch, short_loc};
use ed25519_dalek::{Signer as _, SigningKey, VerifyingKey};
use iroh::{
    Endpoint, EndpointId,
    endpoint::{ConnectOptions, VarInt},
    verif_hooks::tls as hook,
};
use rustls::{
    DigitallySignedStruct, SignatureScheme,
    internal::msgs::codec::{Codec, Reader},
    pki_types::{CertificateDer, ServerName, UnixTime},
};
use serde_json::{Value, json};

const BUDGET: Duration = Duration::from_secs(20);
const ALPN: &[u8] = b"c01";
const SPKI_PREFIX: [u8; 12] = [0x30, 0x2a, 0x30, 0x05, 0x06, 0x03, 0x2b, 0x65, 0x70, 0x03, 0x21, 0x00];
const B32: &[u8; 32] = b"0123456789abcdefghijklmnopqrstuv";

fn spki(key: &[u8; 32]) -> Vec<u8> {
    let mut v = SPKI_PREFIX.to_vec();
    v.extend_from_slice(key);
    v
}

// ------------------------------------------------------------------ reference name codec

fn b32_encode(bytes: &[u8]) -> String {
    let mut out = String::new();
    let mut acc: u32 = 0;
    let mut bits = 0;
    for b in bytes {
        acc = (acc << 8) | *b as u32;
        bits += 8;
        while bits >= 5 {
            bits -= 5;
            out.push(B32[((acc >> bits) & 31) as usize] as char);
        }
    }
    if bits > 0 {
        out.push(B32[((acc << (5 - bits)) & 31) as usize] as char);
    }
    out
}

/// Decodes base32hex-lowercase without padding. Returns (bytes, trailing bits were zero).
fn b32_decode(s: &str, allow_upper: bool) -> Option<(Vec<u8>, bool)> {
    let mut out = Vec::new();
    let mut acc: u32 = 0;
    let mut bits = 0;
    for c in s.bytes() {
        let c = if allow_upper { c.to_ascii_lowercase() } else { c };
        let v = B32.iter().position(|x| *x == c)? as u32;
        acc = (acc << 5) | v;
        bits += 5;
        if bits >= 8 {
            bits -= 8;
            out.push(((acc >> bits) & 0xff) as u8);
        }
    }
    let trailing_zero = bits == 0 || (acc & ((1 << bits) - 1)) == 0;
    // a trailing group that does not contribute a byte is malformed (lengths 1,3,6 mod 8)
    Some((out, trailing_zero))
}

fn valid_key(bytes: &[u8]) -> Option<[u8; 32]> {
    let a: [u8; 32] = bytes.try_into().ok()?;
    VerifyingKey::from_bytes(&a).ok()?;
    Some(a)
}

#[derive(Debug, Clone, PartialEq, Eq)]
enum RefName {
    /// exactly `<lowercase canonical base32 of a valid key>.iroh.invalid`
    Exact([u8; 32]),
    /// that shape up to ASCII case / non-zero trailing bits: the statement leaves it open
    Ambiguous([u8; 32]),
    No,
}

fn ref_decode(s: &str) -> RefName {
    let labels: Vec<&str> = s.split('.').collect();
    if labels.len() != 3 {
        return RefName::No;
    }
    let suffix_exact = labels[1] == "iroh" && labels[2] == "invalid";
    let suffix_ci = labels[1].eq_ignore_ascii_case("iroh") && labels[2].eq_ignore_ascii_case("invalid");
    if !suffix_ci || labels[0].len() != 52 {
        return RefName::No;
    }
    if let Some((bytes, tz)) = b32_decode(labels[0], false) {
        if let Some(k) = valid_key(&bytes) {
            return if suffix_exact && tz { RefName::Exact(k) } else { RefName::Ambiguous(k) };
        }
        return RefName::No;
    }
    if let Some((bytes, _)) = b32_decode(labels[0], true) {
        if let Some(k) = valid_key(&bytes) {
            return RefName::Ambiguous(k);
        }
    }
    RefName::No
}

// ------------------------------------------------------------------ layer 4: names

fn check_name(rep: &Report, s: &str, origin: &str) {
    rep.eval();
    let got = match catch(|| hook::name_decode(s)) {
        Ok(g) => g,
        Err(p) => {
            rep.violation(&format!("C01:name-decode-panic@{}", short_loc(&p)), p, json!({"layer": "name", "name": s}));
            return;
        }
    };
    let r = ref_decode(s);
    match (&r, got) {
        (RefName::Exact(k), Some(id)) if id.as_bytes() == k => {
            rep.count("names.exact_decoded", 1);
        }
        (RefName::Exact(_), other) => rep.violation(
            "C01:name-of-valid-shape-not-decoded",
            format!("{origin}: {s:?} has the stated shape but decode returned {other:?}"),
            json!({"layer": "name", "name": s}),
        ),
        (RefName::Ambiguous(k), Some(id)) => {
            if id.as_bytes() == k {
                rep.count("names.ambiguous_accepted", 1);
            } else {
                rep.violation("C01:name-decoded-to-other-id", format!("{origin}: {s:?} decoded to {id}"), json!({"layer": "name", "name": s}));
            }
        }
        (RefName::Ambiguous(_), None) => rep.count("names.ambiguous_rejected", 1),
        (RefName::No, None) => rep.count("names.malformed_rejected", 1),
        (RefName::No, Some(id)) => rep.violation(
            &format!("C01:malformed-name-decoded:{origin}"),
            format!("{s:?} is not of the shape <base32 of 32 key bytes>.iroh.invalid but decoded to {id}"),
            json!({"layer": "name", "name": s}),
        ),
    }
}

fn rand_key(rng: &mut Rng) -> (SigningKey, [u8; 32]) {
    let sk = SigningKey::from_bytes(&rng.array::<32>());
    let pk = sk.verifying_key().to_bytes();
    (sk, pk)
}

/// 32 bytes that are not a curve point.
fn non_point(rng: &mut Rng) -> [u8; 32] {
    loop {
        let b = rng.array::<32>();
        if VerifyingKey::from_bytes(&b).is_err() {
            return b;
        }
    }
}

fn mutate_name(rng: &mut Rng, pk: &[u8; 32]) -> (String, &'static str) {
    let good = format!("{}.iroh.invalid", b32_encode(pk));
    match rng.below(16) {
        0 => (good, "exact"),
        1 => (good.to_ascii_uppercase(), "uppercase-all"),
        2 => {
            let (l, r) = good.split_at(52);
            (format!("{}{}", l.to_ascii_uppercase(), r), "uppercase-label")
        }
        3 => (good.replace("iroh", "IROH"), "uppercase-iroh"),
        4 => (good.replace(".invalid", ".example"), "wrong-tld"),
        5 => (format!("{good}."), "trailing-dot"),
        6 => (format!("a.{good}"), "extra-label-front"),
        7 => (good.replace(".iroh", ""), "missing-iroh-label"),
        8 => (format!("{}.iroh.invalid", b32_encode(&rng.bytes(31))), "base32-of-31-bytes"),
        9 => (format!("{}.iroh.invalid", b32_encode(&rng.bytes(33))), "base32-of-33-bytes"),
        10 => (format!("{}.iroh.invalid", b32_encode(&non_point(rng))), "base32-of-non-point"),
        11 => {
            // one character of the label replaced
            let mut b = good.clone().into_bytes();
            let p = rng.usize_below(52);
            b[p] = *rng.pick(b"0123456789abcdefghijklmnopqrstuvwxyzABV-_=");
            (String::from_utf8(b).unwrap(), "label-char-replaced")
        }
        12 => {
            // non-zero trailing bits in the last character
            let mut b = good.clone().into_bytes();
            let v = B32.iter().position(|x| *x == b[51]).unwrap();
            b[51] = B32[(v | (1 + rng.usize_below(15))) & 31];
            (String::from_utf8(b).unwrap(), "trailing-bits")
        }
        13 => (format!("{}=.iroh.invalid", &good[..52]), "padded"),
        14 => (good.replace(".iroh.", ".iroh.iroh."), "extra-label-middle"),
        _ => {
            let n = rng.range(0, 80) as usize;
            let s: String = (0..n).map(|_| *rng.pick(b"abcv019.IROHinvalid-_ \x00\xc3") as char).collect();
            (s, "random")
        }
    }
}

// ------------------------------------------------------------------ layer 3: verifiers

fn dss(scheme: u16, sig: &[u8]) -> Option<DigitallySignedStruct> {
    let mut b = Vec::new();
    b.extend_from_slice(&scheme.to_be_bytes());
    b.extend_from_slice(&(sig.len() as u16).to_be_bytes());
    b.extend_from_slice(sig);
    DigitallySignedStruct::read(&mut Reader::init(&b)).ok()
}

fn x509_for(seed: &[u8; 32]) -> Option<Vec<u8>> {
    let mut pkcs8 = vec![0x30, 0x2e, 0x02, 0x01, 0x00, 0x30, 0x05, 0x06, 0x03, 0x2b, 0x65, 0x70, 0x04, 0x22, 0x04, 0x20];
    pkcs8.extend_from_slice(seed);
    let kp = rcgen::KeyPair::try_from(pkcs8.as_slice()).ok()?;
    let params = rcgen::CertificateParams::new(vec!["c01.iroh.invalid".to_string()]).ok()?;
    let cert = params.self_signed(&kp).ok()?;
    Some(cert.der().to_vec())
}

fn verify_cert_cases(rep: &Report, rng: &mut Rng, n: u64) {
    let sv = hook::server_verifier();
    let cv = hook::client_verifier();
    let now = UnixTime::since_unix_epoch(Duration::from_secs(1_800_000_000));
    for it in 0..n {
        rep.eval();
        let (sk, pk) = rand_key(rng);
        let (_sk2, pk2) = rand_key(rng);
        let (name, name_kind) = match rng.below(4) {
            0 | 1 => (format!("{}.iroh.invalid", b32_encode(&pk)), "exact"),
            _ => mutate_name(rng, &pk),
        };
        let ee_kind = rng.below(12);
        let ee: Vec<u8> = match ee_kind {
            0..=3 => spki(&pk),
            4 => spki(&pk2),
            5 => {
                let mut v = spki(&pk);
                let p = (it as usize) % v.len();
                v[p] ^= 1 << rng.below(8);
                v
            }
            6 => {
                let mut v = spki(&pk);
                v.push(rng.below(256) as u8);
                v
            }
            7 => {
                let mut v = spki(&pk);
                v.pop();
                v
            }
            8 => x509_for(&sk.to_bytes()).unwrap_or_default(),
            9 => vec![],
            10 => { let n = rng.range(1, 90) as usize; rng.bytes(n) }
            _ => {
                // X25519 OID instead of Ed25519
                let mut v = spki(&pk);
                v[8] = 0x6e;
                v
            }
        };
        let inter: Vec<CertificateDer<'static>> = match rng.below(5) {
            0 => vec![CertificateDer::from(spki(&pk))],
            1 => { let n = rng.range(0, 40) as usize; vec![CertificateDer::from(rng.bytes(n))] }
            _ => vec![],
        };
        let replay = json!({"layer": "verify_server_cert", "name": name, "end_entity": common::hex(&ee), "intermediates": inter.iter().map(|c| common::hex(c.as_ref())).collect::<Vec<_>>()});
        let ee_der = CertificateDer::from(ee.clone());

        // client verifier: whatever the end entity, a chain must be refused
        match catch(|| cv.verify_client_cert(&ee_der, &inter, now)) {
            Ok(r) => {
                if !inter.is_empty() && r.is_ok() {
                    rep.violation("C01:client-verifier-accepted-chain", format!("verify_client_cert returned Ok with {} intermediates", inter.len()), replay.clone());
                } else if !inter.is_empty() {
                    rep.count("client_cert.chain_refused", 1);
                }
            }
            Err(p) => rep.violation(&format!("C01:client-verifier-panic@{}", short_loc(&p)), p, replay.clone()),
        }

        let server_name = match ServerName::try_from(name.clone()) {
            Ok(n) => n,
            Err(_) => {
                rep.count("server_cert.name_not_a_server_name", 1);
                continue;
            }
        };
        let refname = match &server_name {
            ServerName::DnsName(d) => ref_decode(d.as_ref()),
            _ => RefName::No,
        };
        let got = match catch(|| sv.verify_server_cert(&ee_der, &inter, &server_name, &[], now)) {
            Ok(g) => g.is_ok(),
            Err(p) => {
                rep.violation(&format!("C01:server-verifier-panic@{}", short_loc(&p)), p, replay.clone());
                continue;
            }
        };
        let cert_matches = |k: &[u8; 32]| inter.is_empty() && ee == spki(k);
        match &refname {
            RefName::Exact(k) => {
                let want = cert_matches(k);
                if got && !want {
                    let why = if !inter.is_empty() { "with-intermediates" } else { "end-entity-not-spki-of-named-key" };
                    rep.violation(&format!("C01:server-cert-accepted:{why}"), format!("name {name:?} ({name_kind}) end-entity kind {ee_kind} intermediates {}", inter.len()), replay.clone());
                } else if !got && want {
                    rep.violation("C01:server-cert-of-named-key-refused", format!("name {name:?} end-entity exact SPKI refused"), replay.clone());
                } else if got {
                    rep.count("server_cert.accepted_exact", 1);
                    rep.nontrivial(format!("accept|{name_kind}").as_bytes());
                } else {
                    rep.count("server_cert.refused", 1);
                    rep.count(&format!("server_cert.refused.ee_kind_{ee_kind}"), 1);
                    rep.nontrivial(format!("refuse|{name_kind}|{ee_kind}|{}", inter.len()).as_bytes());
                }
            }
            RefName::Ambiguous(k) => {
                if got && !cert_matches(k) {
                    rep.violation("C01:server-cert-accepted:ambiguous-name-wrong-cert", format!("name {name:?} ({name_kind}) ee kind {ee_kind}"), replay.clone());
                } else {
                    rep.count("server_cert.ambiguous_name", 1);
                }
            }
            RefName::No => {
                if got {
                    rep.violation(&format!("C01:server-cert-accepted:malformed-name:{name_kind}"), format!("name {name:?} ee kind {ee_kind}"), replay.clone());
                } else {
                    rep.count("server_cert.refused_malformed_name", 1);
                    rep.nontrivial(format!("refuse-name|{name_kind}").as_bytes());
                }
            }
        }
    }
}

/// Encodings of the 8 small-order points of Curve25519 (canonical encodings).
const SMALL_ORDER: [[u8; 32]; 5] = [
    // identity (order 1)
    [1, 0, 0, 0, 0, 0, 0, 0, 0, 0, 0, 0, 0, 0, 0, 0, 0, 0, 0, 0, 0, 0, 0, 0, 0, 0, 0, 0, 0, 0, 0, 0],
    // order 2
    [0xec, 0xff, 0xff, 0xff, 0xff, 0xff, 0xff, 0xff, 0xff, 0xff, 0xff, 0xff, 0xff, 0xff, 0xff, 0xff, 0xff, 0xff, 0xff, 0xff, 0xff, 0xff, 0xff, 0xff, 0xff, 0xff, 0xff, 0xff, 0xff, 0xff, 0xff, 0x7f],
    // order 4
    [0, 0, 0, 0, 0, 0, 0, 0, 0, 0, 0, 0, 0, 0, 0, 0, 0, 0, 0, 0, 0, 0, 0, 0, 0, 0, 0, 0, 0, 0, 0, 0],
    [0, 0, 0, 0, 0, 0, 0, 0, 0, 0, 0, 0, 0, 0, 0, 0, 0, 0, 0, 0, 0, 0, 0, 0, 0, 0, 0, 0, 0, 0, 0, 0x80],
    // order 8
    [0x26, 0xe8, 0x95, 0x8f, 0xc2, 0xb2, 0x27, 0xb0, 0x45, 0xc3, 0xf4, 0x89, 0xf2, 0xef, 0x98, 0xf0, 0xd5, 0xdf, 0xac, 0x05, 0xd3, 0xc6, 0x33, 0x39, 0xb1, 0x38, 0x02, 0x88, 0x6d, 0x53, 0xfc, 0x05],
];

fn verify_sig_cases(rep: &Report, rng: &mut Rng, n: u64) {
    let sv = hook::server_verifier();
    let cv = hook::client_verifier();
    for it in 0..n {
        rep.eval();
        let (sk, pk) = rand_key(rng);
        let (sk2, pk2) = rand_key(rng);
        let mlen = rng.range(0, 200) as usize;
        let msg = rng.bytes(mlen);
        let good = sk.sign(&msg).to_bytes().to_vec();
        let sig_kind = rng.below(10);
        let (cert_key, sig): ([u8; 32], Vec<u8>) = match sig_kind {
            0..=2 => (pk, good.clone()),
            3 => (pk, sk2.sign(&msg).to_bytes().to_vec()),
            4 => {
                let mut m2 = msg.clone();
                m2.push(1);
                (pk, sk.sign(&m2).to_bytes().to_vec())
            }
            5 => {
                let mut s = good.clone();
                let p = (it as usize) % 64;
                s[p] ^= 1 << rng.below(8);
                (pk, s)
            }
            6 => (pk, good[..63].to_vec()),
            7 => {
                let mut s = good.clone();
                s.push(0);
                (pk, s)
            }
            8 => (pk2, good.clone()),
            _ => {
                // small-order key with the (R = identity, s = 0) signature that non-strict
                // verification accepts for the identity / some small-order keys
                let k = SMALL_ORDER[rng.usize_below(SMALL_ORDER.len())];
                let mut s = SMALL_ORDER[0].to_vec();
                s.extend_from_slice(&[0u8; 32]);
                (k, s)
            }
        };
        let cert_kind = rng.below(8);
        let cert: Vec<u8> = match cert_kind {
            0..=4 => spki(&cert_key),
            5 => {
                let mut v = spki(&cert_key);
                let p = rng.usize_below(12);
                v[p] ^= 1 << rng.below(8);
                v
            }
            6 => {
                let mut v = spki(&cert_key);
                v.pop();
                v
            }
            _ => x509_for(&sk.to_bytes()).unwrap_or_default(),
        };
        let scheme: u16 = match rng.below(8) {
            0..=4 => 0x0807,
            5 => 0x0403,
            6 => 0x0804,
            _ => *rng.pick(&[0x0808u16, 0x0000, 0x0401, 0x0203, 0xffff]),
        };
        let Some(d) = dss(scheme, &sig) else {
            rep.count("sig.dss_not_constructible", 1);
            continue;
        };
        let replay = json!({"layer": "verify_tls13_signature", "message": common::hex(&msg), "cert": common::hex(&cert), "scheme": scheme, "signature": common::hex(&sig)});
        // reference: scheme ED25519, cert is exactly SPKI of a valid key K', strict verification
        let want = scheme == 0x0807
            && cert.len() == 44
            && cert[..12] == SPKI_PREFIX
            && sig.len() == 64
            && {
                let k: [u8; 32] = cert[12..].try_into().unwrap();
                match VerifyingKey::from_bytes(&k) {
                    Ok(vk) => {
                        let s = ed25519_dalek::Signature::from_bytes(sig.as_slice().try_into().unwrap());
                        vk.verify_strict(&msg, &s).is_ok()
                    }
                    Err(_) => false,
                }
            };
        let cert_der = CertificateDer::from(cert.clone());
        for (who, got) in [
            ("server-verifier", catch(|| sv.verify_tls13_signature(&msg, &cert_der, &d).is_ok())),
            ("client-verifier", catch(|| cv.verify_tls13_signature(&msg, &cert_der, &d).is_ok())),
        ] {
            let got = match got {
                Ok(g) => g,
                Err(p) => {
                    rep.violation(&format!("C01:signature-verifier-panic@{}", short_loc(&p)), p, replay.clone());
                    continue;
                }
            };
            if got && !want {
                let why = if scheme != 0x0807 {
                    "wrong-scheme"
                } else if sig_kind == 9 {
                    "small-order-key"
                } else if cert_kind >= 5 {
                    "malformed-cert"
                } else {
                    "invalid-signature"
                };
                rep.violation(&format!("C01:signature-accepted:{why}:{who}"), format!("sig kind {sig_kind} cert kind {cert_kind} scheme {scheme:#06x}"), replay.clone());
            } else if !got && want {
                rep.violation(&format!("C01:valid-signature-refused:{who}"), format!("sig kind {sig_kind} cert kind {cert_kind}"), replay.clone());
            } else if got {
                rep.count("sig.accepted_valid", 1);
            } else {
                rep.count("sig.refused", 1);
                rep.count(&format!("sig.refused.sig_kind_{sig_kind}"), 1);
                rep.nontrivial(format!("sig|{sig_kind}|{cert_kind}|{scheme}").as_bytes());
            }
        }
        // verify_tls12_signature must never accept
        if let Ok(true) = catch(|| sv.verify_tls12_signature(&msg, &cert_der, &d).is_ok() || cv.verify_tls12_signature(&msg, &cert_der, &d).is_ok()) {
            rep.violation("C01:tls12-signature-accepted", "verify_tls12_signature returned Ok".to_string(), replay.clone());
        }
    }
}

// ------------------------------------------------------------------ layer 1: honest pool

#[derive(Clone, Debug)]
struct PoolEv {
    listener: usize,
    marker: Option<Vec<u8>>,
    remote: EndpointId,
}

fn marker_of(alpns: &[Vec<u8>]) -> Option<Vec<u8>> {
    alpns.iter().find(|a| a.starts_with(b"m/")).cloned()
}

async fn pool_accept_loop(ep: Endpoint, me: usize, log: Arc<Mutex<Vec<PoolEv>>>) {
    while let Some(incoming) = ep.accept().await {
        let offered: Option<Vec<Vec<u8>>> = incoming.decrypt().and_then(|d| d.alpns()).map(|it| it.filter_map(|x| x.ok()).map(|b| b.to_vec()).collect());
        let marker = offered.as_deref().and_then(marker_of);
        let log = log.clone();
        tokio::spawn(async move {
            let Ok(accepting) = incoming.accept() else { return };
            if let Ok(conn) = accepting.await {
                log.lock().unwrap().push(PoolEv { listener: me, marker, remote: conn.remote_id() });
                // echo one stream, then wait for the close
                if let Ok((mut s, mut r)) = conn.accept_bi().await {
                    if let Ok(d) = r.read_to_end(64).await {
                        let _ = s.write_all(&d).await;
                        let _ = s.finish();
                    }
                }
                conn.closed().await;
            }
        });
    }
}

async fn honest_pool(rep: &Report, rng: &mut Rng, n: usize, extra_alpns: bool) {
    let log = Arc::new(Mutex::new(Vec::new()));
    let mut listeners = Vec::new();
    let mut dialers = Vec::new();
    for _ in 0..n {
        let l = epkit::builder(epkit::secret(rng.array())).alpns(vec![ALPN.to_vec()]).bind().await.expect("bind");
        let d = epkit::builder(epkit::secret(rng.array())).bind().await.expect("bind");
        listeners.push(l);
        dialers.push(d);
    }
    let loops: Vec<_> = (0..n).map(|j| tokio::spawn(pool_accept_loop(listeners[j].clone(), j, log.clone()))).collect();
    let ids: Vec<EndpointId> = listeners.iter().map(|l| l.id()).collect();
    let socks: Vec<SocketAddr> = listeners.iter().map(epkit::local_addr).collect();
    let mut attempts: Vec<(usize, usize, Vec<u8>, bool, Option<EndpointId>)> = Vec::new();
    let mut js = tokio::task::JoinSet::new();
    for j in 0..n {
        // dialer j dials every K_i at listener j's address (each id once per dialer)
        let d = dialers[j].clone();
        let ids = ids.clone();
        let sock = socks[j];
        let order: Vec<usize> = {
            let mut o: Vec<usize> = (0..n).collect();
            rng.shuffle(&mut o);
            o
        };
        js.spawn(async move {
            let mut out = Vec::new();
            for i in order {
                let marker = format!("m/{i}/{j}").into_bytes();
                let mut extra = vec![marker.clone()];
                if extra_alpns {
                    extra.push(b"c01/other".to_vec());
                }
                let opts = ConnectOptions::new().with_additional_alpns(extra);
                let res = epkit::within(BUDGET, async {
                    let c = d.connect_with_opts(epkit::addr_of(ids[i], sock), ALPN, opts).await.map_err(|e| format!("{e:#}"))?;
                    let conn = c.await.map_err(|e| format!("{e:#}"))?;
                    let rid = conn.remote_id();
                    // prove the connection is live
                    let echo = async {
                        let (mut s, mut r) = conn.open_bi().await.ok()?;
                        s.write_all(b"ping").await.ok()?;
                        s.finish().ok()?;
                        r.read_to_end(16).await.ok()
                    }
                    .await;
                    conn.close(VarInt::from_u32(1), b"done");
                    Ok::<_, String>((rid, echo.is_some()))
                })
                .await;
                out.push((i, j, marker, res));
            }
            out
        });
    }
    let mut results = Vec::new();
    while let Some(r) = js.join_next().await {
        if let Ok(v) = r {
            results.extend(v);
        }
    }
    tokio::time::sleep(Duration::from_millis(50)).await;
    let evs = log.lock().unwrap().clone();
    for (i, j, marker, res) in results {
        rep.eval();
        let replay = json!({"layer": "honest-pool", "dialed_index": i, "listener_index": j, "n": n, "extra_alpns": extra_alpns});
        let acc: Vec<&PoolEv> = evs.iter().filter(|e| e.marker.as_deref() == Some(&marker[..])).collect();
        match res {
            None => {
                rep.inconclusive("pool-dial-did-not-finish-within-budget");
                continue;
            }
            Some(Ok((rid, echoed))) => {
                if i != j {
                    rep.violation("C01:connected-to-endpoint-holding-other-key", format!("dialed id of endpoint {i} at the address of endpoint {j}: connect completed, remote_id() = {rid}"), replay.clone());
                } else {
                    rep.count("pool.matched_dial_completed", 1);
                    if rid != ids[j] {
                        rep.violation("C01:dialer-remote-id-differs-from-peer-key", format!("remote_id() {rid} != key held by the listener {}", ids[j]), replay.clone());
                    }
                    if echoed {
                        match acc.first() {
                            Some(e) => {
                                if e.remote != dialers[j].id() {
                                    rep.violation("C01:acceptor-remote-id-differs-from-dialer-key", format!("acceptor saw {} but the dialer holds {}", e.remote, dialers[j].id()), replay.clone());
                                } else {
                                    rep.count("pool.both_remote_ids_correct", 1);
                                    rep.nontrivial(format!("match|{i}|{n}|{extra_alpns}").as_bytes());
                                }
                            }
                            None => rep.inconclusive("acceptor-event-not-attributed"),
                        }
                    }
                }
                attempts.push((i, j, marker, true, Some(rid)));
            }
            Some(Err(_)) => {
                if i == j {
                    rep.count("pool.matched_dial_failed", 1);
                    rep.inconclusive("matched-dial-failed");
                } else {
                    rep.count("pool.mismatched_dial_refused", 1);
                    rep.nontrivial(format!("mismatch|{i}|{j}|{n}|{extra_alpns}").as_bytes());
                    if !acc.is_empty() {
                        rep.violation("C01:listener-established-connection-from-mismatched-dial", format!("dial of id {i} at listener {j} failed on the dialer but the listener obtained a connection (remote {})", acc[0].remote), replay.clone());
                    }
                }
                attempts.push((i, j, marker, false, None));
            }
        }
    }
    for e in listeners.iter().chain(dialers.iter()) {
        let _ = epkit::within(BUDGET, e.close()).await;
    }
    for l in loops {
        l.abort();
    }
}

// ------------------------------------------------------------------ layer 2: hostile server

#[derive(Clone, Copy, Debug, PartialEq, Eq)]
enum Strategy {
    /// control: holds K, presents K, signs with K
    Honest,
    /// holds K', presents K', signs with K'
    OwnKey,
    /// presents K's raw key, signs with K'
    PresentVictimSignOwn,
    /// presents K's raw key, "signs" with random bytes
    PresentVictimSignGarbage,
    /// presents K's raw key, replays a signature K made over another message
    PresentVictimReplaySignature,
    /// presents an X.509 certificate for K'
    X509,
    /// presents [K raw key, K' raw key] as a chain, signs with K'
    Chain,
    /// dialed id is a small-order point; presents it; signature (identity, 0)
    SmallOrder,
}

const STRATEGIES: [Strategy; 8] = [
    Strategy::Honest,
    Strategy::OwnKey,
    Strategy::PresentVictimSignOwn,
    Strategy::PresentVictimSignGarbage,
    Strategy::PresentVictimReplaySignature,
    Strategy::X509,
    Strategy::Chain,
    Strategy::SmallOrder,
];

#[derive(Debug, Clone)]
struct EvilKey {
    present: [u8; 32],
    signer: SigningKey,
    mode: Strategy,
    victim: Option<SigningKey>,
    signed: Arc<Mutex<u64>>,
}

impl rustls::sign::SigningKey for EvilKey {
    fn choose_scheme(&self, offered: &[SignatureScheme]) -> Option<Box<dyn rustls::sign::Signer>> {
        offered.contains(&SignatureScheme::ED25519).then(|| Box::new(self.clone()) as Box<dyn rustls::sign::Signer>)
    }
    fn algorithm(&self) -> rustls::SignatureAlgorithm {
        rustls::SignatureAlgorithm::ED25519
    }
    fn public_key(&self) -> Option<rustls::pki_types::SubjectPublicKeyInfoDer<'_>> {
        Some(rustls::pki_types::SubjectPublicKeyInfoDer::from(spki(&self.present)))
    }
}

impl rustls::sign::Signer for EvilKey {
    fn sign(&self, message: &[u8]) -> Result<Vec<u8>, rustls::Error> {
        *self.signed.lock().unwrap() += 1;
        Ok(match self.mode {
            Strategy::PresentVictimSignGarbage => {
                let mut v = self.signer.sign(message).to_bytes().to_vec();
                v.reverse();
                v
            }
            Strategy::PresentVictimReplaySignature => {
                // a genuine signature of the victim, but over a different message
                let mut m = message.to_vec();
                m[0] ^= 1;
                self.victim.as_ref().unwrap().sign(&m).to_bytes().to_vec()
            }
            Strategy::SmallOrder => {
                let mut s = SMALL_ORDER[0].to_vec();
                s.extend_from_slice(&[0u8; 32]);
                s
            }
            _ => self.signer.sign(message).to_bytes().to_vec(),
        })
    }
    fn scheme(&self) -> SignatureScheme {
        SignatureScheme::ED25519
    }
}

#[derive(Debug)]
struct EvilResolver {
    key: Arc<rustls::sign::CertifiedKey>,
    rpk: bool,
}

impl rustls::server::ResolvesServerCert for EvilResolver {
    fn resolve(&self, _hello: rustls::server::ClientHello<'_>) -> Option<Arc<rustls::sign::CertifiedKey>> {
        Some(self.key.clone())
    }
    fn only_raw_public_keys(&self) -> bool {
        self.rpk
    }
}

struct Evil {
    ep: noq::Endpoint,
    addr: SocketAddr,
    established: Arc<Mutex<u64>>,
    signed: Arc<Mutex<u64>>,
}

fn evil_server(strategy: Strategy, victim: &SigningKey, victim_pub: [u8; 32], own: &SigningKey) -> Result<Evil, String> {
    let signed = Arc::new(Mutex::new(0u64));
    let own_pub = own.verifying_key().to_bytes();
    let (certs, key, rpk): (Vec<CertificateDer<'static>>, Arc<dyn rustls::sign::SigningKey>, bool) = match strategy {
        Strategy::Honest => (
            vec![CertificateDer::from(spki(&victim_pub))],
            Arc::new(EvilKey { present: victim_pub, signer: victim.clone(), mode: strategy, victim: None, signed: signed.clone() }),
            true,
        ),
        Strategy::OwnKey => (
            vec![CertificateDer::from(spki(&own_pub))],
            Arc::new(EvilKey { present: own_pub, signer: own.clone(), mode: strategy, victim: None, signed: signed.clone() }),
            true,
        ),
        Strategy::PresentVictimSignOwn | Strategy::PresentVictimSignGarbage | Strategy::SmallOrder => (
            vec![CertificateDer::from(spki(&victim_pub))],
            Arc::new(EvilKey { present: victim_pub, signer: own.clone(), mode: strategy, victim: None, signed: signed.clone() }),
            true,
        ),
        Strategy::PresentVictimReplaySignature => (
            vec![CertificateDer::from(spki(&victim_pub))],
            // the harness knows the victim's secret only to fabricate "a signature the victim
            // once made over something else"
            Arc::new(EvilKey { present: victim_pub, signer: own.clone(), mode: strategy, victim: Some(victim.clone()), signed: signed.clone() }),
            true,
        ),
        Strategy::Chain => (
            vec![CertificateDer::from(spki(&victim_pub)), CertificateDer::from(spki(&own_pub))],
            Arc::new(EvilKey { present: victim_pub, signer: own.clone(), mode: strategy, victim: None, signed: signed.clone() }),
            true,
        ),
        Strategy::X509 => {
            let der = x509_for(&own.to_bytes()).ok_or("rcgen failed")?;
            (
                vec![CertificateDer::from(der)],
                Arc::new(EvilKey { present: own_pub, signer: own.clone(), mode: strategy, victim: None, signed: signed.clone() }),
                false,
            )
        }
    };
    let ck = Arc::new(rustls::sign::CertifiedKey::new(certs, key));
    let provider = Arc::new(rustls::crypto::ring::default_provider());
    let mut cfg = rustls::ServerConfig::builder_with_provider(provider)
        .with_protocol_versions(&[&rustls::version::TLS13])
        .map_err(|e| e.to_string())?
        // the iroh client only speaks raw public keys in both directions, so the hostile
        // server asks for (and accepts any) raw-public-key client certificate
        .with_client_cert_verifier(hook::client_verifier())
        .with_cert_resolver(Arc::new(EvilResolver { key: ck, rpk }));
    cfg.alpn_protocols = vec![ALPN.to_vec()];
    let qcfg = noq::crypto::rustls::QuicServerConfig::try_from(cfg).map_err(|e| e.to_string())?;
    let scfg = noq::ServerConfig::with_crypto(Arc::new(qcfg));
    let ep = noq::Endpoint::server(scfg, SocketAddr::from((Ipv4Addr::LOCALHOST, 0))).map_err(|e| e.to_string())?;
    let addr = ep.local_addr().map_err(|e| e.to_string())?;
    let established = Arc::new(Mutex::new(0u64));
    let est = established.clone();
    let ep2 = ep.clone();
    tokio::spawn(async move {
        while let Some(incoming) = ep2.accept().await {
            let est = est.clone();
            tokio::spawn(async move {
                if let Ok(conn) = incoming.await {
                    *est.lock().unwrap() += 1;
                    conn.closed().await;
                }
            });
        }
    });
    Ok(Evil { ep, addr, established, signed })
}

async fn hostile_round(rep: &Report, rng: &mut Rng, dialer: &Endpoint, strategy: Strategy) {
    rep.eval();
    let (victim, mut victim_pub) = rand_key(rng);
    let (own, _) = rand_key(rng);
    if strategy == Strategy::SmallOrder {
        victim_pub = SMALL_ORDER[rng.usize_below(SMALL_ORDER.len())];
    }
    let replay = json!({"layer": "hostile-server", "strategy": format!("{strategy:?}"), "victim_pub": common::hex(&victim_pub)});
    let Ok(id) = EndpointId::from_bytes(&victim_pub) else {
        rep.count("hostile.dialed_id_not_constructible", 1);
        return;
    };
    let evil = match evil_server(strategy, &victim, victim_pub, &own) {
        Ok(e) => e,
        Err(e) => {
            rep.inconclusive("hostile-server-setup-failed");
            rep.note(format!("{strategy:?}: {e}"));
            return;
        }
    };
    let res = epkit::within(BUDGET, async {
        let conn = dialer.connect(epkit::addr_of(id, evil.addr), ALPN).await.map_err(|e| format!("{e:#}"))?;
        let rid = conn.remote_id();
        conn.close(VarInt::from_u32(1), b"done");
        Ok::<_, String>(rid)
    })
    .await;
    let signed = *evil.signed.lock().unwrap();
    match (strategy, res) {
        (_, None) => rep.inconclusive("hostile-dial-did-not-finish-within-budget"),
        (Strategy::Honest, Some(Ok(rid))) => {
            rep.count("hostile.control_connected", 1);
            if rid.as_bytes() != &victim_pub {
                rep.violation("C01:dialer-remote-id-differs-from-peer-key", format!("control server holds {} but remote_id() = {rid}", common::hex(&victim_pub)), replay);
            }
        }
        (Strategy::Honest, Some(Err(e))) => {
            rep.count("hostile.control_failed", 1);
            rep.note(format!("control dial failed: {e}"));
        }
        (s, Some(Ok(rid))) => {
            rep.violation(
                &format!("C01:connected-without-proof-of-key:{s:?}"),
                format!("dial of {} completed against a server using strategy {s:?} (remote_id() = {rid}, server signed {signed} handshakes)", common::hex(&victim_pub)),
                replay,
            );
        }
        (s, Some(Err(_))) => {
            rep.count(&format!("hostile.refused.{s:?}"), 1);
            if signed > 0 {
                // the server really got as far as presenting its certificate + signature
                rep.count(&format!("hostile.refused_after_server_signed.{s:?}"), 1);
                rep.nontrivial(format!("hostile|{s:?}").as_bytes());
            }
            if *evil.established.lock().unwrap() > 0 {
                rep.count("hostile.server_side_established_although_dial_failed", 1);
            }
        }
    }
    evil.ep.close(0u32.into(), b"");
    let _ = (&own, &victim);
}

// ------------------------------------------------------------------ main

fn replay_one(rep: &Report, r: &Value) {
    let unhex = |s: &str| -> Vec<u8> { (0..s.len() / 2).map(|i| u8::from_str_radix(&s[2 * i..2 * i + 2], 16).unwrap_or(0)).collect() };
    match r["layer"].as_str().unwrap_or("") {
        "name" => check_name(rep, r["name"].as_str().unwrap_or(""), "replay"),
        "verify_server_cert" => {
            rep.eval();
            let sv = hook::server_verifier();
            let ee = CertificateDer::from(unhex(r["end_entity"].as_str().unwrap_or("")));
            let inter: Vec<CertificateDer<'static>> = r["intermediates"].as_array().map(|a| a.iter().map(|x| CertificateDer::from(unhex(x.as_str().unwrap_or("")))).collect()).unwrap_or_default();
            let name = r["name"].as_str().unwrap_or("").to_string();
            if let Ok(sn) = ServerName::try_from(name.clone()) {
                let got = sv.verify_server_cert(&ee, &inter, &sn, &[], UnixTime::since_unix_epoch(Duration::from_secs(1_800_000_000))).is_ok();
                let want = match ref_decode(&name) {
                    RefName::Exact(k) | RefName::Ambiguous(k) => inter.is_empty() && ee.as_ref() == spki(&k).as_slice(),
                    RefName::No => false,
                };
                if got && !want {
                    rep.violation("C01:server-cert-accepted:replay", format!("verify_server_cert accepted name {name:?}"), r.clone());
                }
            }
        }
        "verify_tls13_signature" => {
            rep.eval();
            let sv = hook::server_verifier();
            let msg = unhex(r["message"].as_str().unwrap_or(""));
            let cert = unhex(r["cert"].as_str().unwrap_or(""));
            let sig = unhex(r["signature"].as_str().unwrap_or(""));
            let scheme = r["scheme"].as_u64().unwrap_or(0) as u16;
            if let Some(d) = dss(scheme, &sig) {
                let got = sv.verify_tls13_signature(&msg, &CertificateDer::from(cert.clone()), &d).is_ok();
                let want = scheme == 0x0807 && cert.len() == 44 && cert[..12] == SPKI_PREFIX && sig.len() == 64 && VerifyingKey::from_bytes(cert[12..].try_into().unwrap()).map(|vk| vk.verify_strict(&msg, &ed25519_dalek::Signature::from_bytes(sig.as_slice().try_into().unwrap())).is_ok()).unwrap_or(false);
                if got != want {
                    rep.violation("C01:signature-verdict-differs:replay", format!("got {got} want {want}"), r.clone());
                }
            }
        }
        _ => rep.note("end-to-end witnesses are re-run by the normal (seeded) run"),
    }
}

fn main() {
    let a = args();
    let rep = Arc::new(Report::new(
        "C01",
        "layers: honest pool (all ordered pairs dialed-id x listener over N endpoints), hostile QUIC server (8 certificate/signature strategies incl. control), verifier tuples (name x end-entity x intermediates; message x cert x scheme x signature) against a reference oracle, name-codec strings; non-trivial = refused mismatched/hostile dial after the server presented its proof, matched dial with both remote ids checked, refused verifier tuple per (name kind, cert kind, chain) class; distinct = those classes",
        &a,
    ));
    if let Some(p) = &a.replay {
        let v: Value = serde_json::from_str(&std::fs::read_to_string(p).unwrap()).unwrap();
        replay_one(&rep, &v["replay"]);
        rep.finish();
        return;
    }
    let mut rng = Rng::derive(a.seed, "C01", 0);

    // layer 4: names
    let n_names = a.pick(100_000u64, 2_000_000);
    for _ in 0..n_names {
        let (_sk, pk) = rand_key(&mut rng);
        // round trip through the real encoder
        if let Ok(id) = EndpointId::from_bytes(&pk) {
            let enc = hook::name_encode(id);
            rep.eval();
            if hook::name_decode(&enc) != Some(id) {
                rep.violation("C01:name-roundtrip-failed", format!("decode(encode({id})) != id; encoded {enc:?}"), json!({"layer": "name", "name": enc}));
            } else if enc != format!("{}.iroh.invalid", b32_encode(&pk)) {
                rep.violation("C01:encoded-name-not-of-stated-shape", format!("encode({id}) = {enc:?}"), json!({"layer": "name", "name": enc}));
            } else {
                rep.count("names.roundtrip_ok", 1);
            }
        }
        let (s, origin) = mutate_name(&mut rng, &pk);
        rep.count(&format!("names.kind.{origin}"), 1);
        check_name(&rep, &s, origin);
    }
    // layer 3: verifiers
    verify_cert_cases(&rep, &mut rng, a.pick(20_000, 1_000_000));
    verify_sig_cases(&rep, &mut rng, a.pick(10_000, 500_000));

    // layers 1 + 2: real endpoints
    let rt = epkit::runtime(8);
    rt.block_on(async {
        let rounds = a.pick(2, 10);
        for r in 0..rounds {
            let n = a.pick(6, 12);
            honest_pool(&rep, &mut rng, n, r % 2 == 1).await;
        }
        let dialer = epkit::builder(epkit::secret(rng.array())).bind().await.expect("bind");
        let per = a.pick(12, 160);
        for _ in 0..per {
            for s in STRATEGIES {
                hostile_round(&rep, &mut rng, &dialer, s).await;
            }
        }
        let _ = epkit::within(BUDGET, dialer.close()).await;
    });

    rep.require("names.roundtrip_ok", a.pick(50_000, 500_000));
    rep.require("names.malformed_rejected", a.pick(20_000, 200_000));
    rep.require("server_cert.accepted_exact", a.pick(500, 10_000));
    rep.require("server_cert.refused", a.pick(2_000, 50_000));
    rep.require("client_cert.chain_refused", a.pick(1_000, 20_000));
    rep.require("sig.accepted_valid", a.pick(500, 10_000));
    rep.require("sig.refused", a.pick(2_000, 50_000));
    rep.require("pool.both_remote_ids_correct", a.pick(10, 40));
    rep.require("pool.mismatched_dial_refused", a.pick(50, 400));
    rep.require("hostile.control_connected", a.pick(10, 60));
    for s in ["OwnKey", "PresentVictimSignOwn", "PresentVictimSignGarbage", "PresentVictimReplaySignature"] {
        rep.require(&format!("hostile.refused_after_server_signed.{s}"), a.pick(10, 60));
    }
    rep.finish();
}
