//! The real `iroh_dns_server::Server` on loopback (no DHT, no ACME/HTTPS, no metrics
//! endpoint, rate limit off, temp data dir) plus plain HTTP / DNS clients.

use std::{
    net::{IpAddr, Ipv4Addr, SocketAddr},
    path::Path,
    time::Duration,
};

use bytes::Bytes;
use http_body_util::{BodyExt, Full};
use hyper::client::conn::http1;
use hyper_util::rt::TokioIo;
use iroh_dns_server::{
    Server,
    config::{Config, MetricsConfig, RateLimitConfig, StoreConfig},
};
use tokio::{
    io::{AsyncReadExt, AsyncWriteExt},
    net::{TcpStream, UdpSocket},
};

use crate::wire::{self, Labels, Msg};

pub const ORIGIN: &str = "irohdns.example";

/// Store settings for the monitors: nothing is ever evicted unless asked for.
pub fn store_config(eviction: Duration, eviction_interval: Duration, max_batch_time: Duration, max_batch_size: usize) -> StoreConfig {
    let mut c = StoreConfig::default();
    c.eviction = eviction;
    c.eviction_interval = eviction_interval;
    c.max_batch_time = max_batch_time;
    c.max_batch_size = max_batch_size;
    c
}

/// `eviction = u64::MAX µs`: the cut-off saturates at 0, no timestamp is ever older.
pub fn never_evict() -> StoreConfig {
    store_config(Duration::from_micros(u64::MAX), Duration::from_secs(3600), Duration::from_millis(20), 1024 * 64)
}

pub fn config(dir: &Path, store: StoreConfig) -> Config {
    let mut config = Config::default();
    config.dns.port = 0;
    config.dns.bind_addr = Some(IpAddr::V4(Ipv4Addr::LOCALHOST));
    config.dns.origins = vec![format!("{ORIGIN}."), ".".to_string()];
    let http = config.http.as_mut().expect("default has http");
    http.port = 0;
    http.bind_addr = Some(IpAddr::V4(Ipv4Addr::LOCALHOST));
    config.https = None;
    config.metrics = Some(MetricsConfig::disabled());
    config.mainline = None;
    config.zone_store = Some(store);
    config.pkarr_put_rate_limit = RateLimitConfig::Disabled;
    config.data_dir = Some(dir.to_owned());
    config
}

/// A loopback port that is free for UDP and TCP right now (the server binds its DNS UDP
/// socket and TCP listener separately; with port 0 they would end up on different ports).
fn pick_port() -> Option<u16> {
    for _ in 0..50 {
        let t = std::net::TcpListener::bind((Ipv4Addr::LOCALHOST, 0)).ok()?;
        let port = t.local_addr().ok()?.port();
        if std::net::UdpSocket::bind((Ipv4Addr::LOCALHOST, port)).is_ok() {
            return Some(port);
        }
    }
    None
}

/// Starts the server; retries while the sockets or the database file (just released by a
/// previous instance) are not available yet.  Exhausting the budget is an `Err`
/// (inconclusive for the caller), never a verdict.
pub async fn start(dir: &Path, store: StoreConfig) -> Result<Server, String> {
    let mut last = String::new();
    for attempt in 0..40 {
        let mut c = config(dir, store.clone());
        c.dns.port = pick_port().ok_or("no free loopback port")?;
        match Server::bind(c).await {
            Ok(s) => return Ok(s),
            Err(e) => last = format!("{e:#}"),
        }
        tokio::time::sleep(Duration::from_millis(50 * (attempt + 1))).await;
    }
    Err(format!("bind failed: {last}"))
}

// ---------------------------------------------------------------------------------

pub struct Http {
    addr: SocketAddr,
    conn: Option<http1::SendRequest<Full<Bytes>>>,
    pub requests: u64,
}

pub struct Resp {
    pub status: u16,
    pub body: Vec<u8>,
    pub content_type: Option<String>,
}

impl Http {
    pub fn new(addr: SocketAddr) -> Self {
        Http { addr, conn: None, requests: 0 }
    }

    /// Drops the keep-alive connection (the server's connection task holds the store open).
    pub fn close(&mut self) {
        self.conn = None;
    }

    async fn sender(&mut self) -> Result<&mut http1::SendRequest<Full<Bytes>>, String> {
        let usable = match self.conn.as_mut() {
            Some(c) => c.ready().await.is_ok(),
            None => false,
        };
        if !usable {
            let stream = TcpStream::connect(self.addr).await.map_err(|e| format!("connect: {e}"))?;
            stream.set_nodelay(true).ok();
            let (sender, conn) = http1::handshake(TokioIo::new(stream)).await.map_err(|e| format!("handshake: {e}"))?;
            tokio::spawn(async move {
                let _ = conn.await;
            });
            self.conn = Some(sender);
            self.conn.as_mut().unwrap().ready().await.map_err(|e| format!("ready: {e}"))?;
        }
        Ok(self.conn.as_mut().unwrap())
    }

    /// Sends exactly one request (never re-sent: a PUT is not idempotent for the metrics).
    pub async fn request(&mut self, method: &str, path: &str, headers: &[(&str, &str)], body: Vec<u8>) -> Result<Resp, String> {
        let addr = self.addr;
        let sender = self.sender().await?;
        let mut b = http::Request::builder().method(method).uri(path).header("host", addr.to_string());
        for (k, v) in headers {
            b = b.header(*k, *v);
        }
        let req = b.body(Full::new(Bytes::from(body))).map_err(|e| format!("request: {e}"))?;
        let fut = async {
            let resp = sender.send_request(req).await.map_err(|e| format!("send: {e}"))?;
            let status = resp.status().as_u16();
            let content_type = resp.headers().get("content-type").and_then(|v| v.to_str().ok()).map(|s| s.to_string());
            let body = resp.into_body().collect().await.map_err(|e| format!("body: {e}"))?.to_bytes().to_vec();
            Ok::<_, String>(Resp { status, body, content_type })
        };
        let r = tokio::time::timeout(Duration::from_secs(30), fut).await;
        self.requests += 1;
        match r {
            Ok(Ok(r)) => Ok(r),
            Ok(Err(e)) => {
                self.conn = None;
                Err(e)
            }
            Err(_) => {
                self.conn = None;
                Err("http timeout".into())
            }
        }
    }

    pub async fn put_pkarr(&mut self, key_in_url: &str, relay_payload: Vec<u8>) -> Result<Resp, String> {
        self.request("PUT", &format!("/pkarr/{key_in_url}"), &[], relay_payload).await
    }

    pub async fn get_pkarr(&mut self, z32: &str) -> Result<Resp, String> {
        self.request("GET", &format!("/pkarr/{z32}"), &[], Vec::new()).await
    }
}

// ---------------------------------------------------------------------------------

#[derive(Clone, Copy, Debug, PartialEq, Eq)]
pub enum Transport {
    Udp,
    Tcp,
    DohGet,
    DohPost,
}

pub struct Dns {
    addr: SocketAddr,
    udp: UdpSocket,
    next_id: u16,
    pub http: Http,
    pub counts: [u64; 4],
    pub udp_retries: u64,
    pub tc_fallbacks: u64,
}

impl Dns {
    pub async fn new(dns_addr: SocketAddr, http_addr: SocketAddr) -> Result<Self, String> {
        let udp = UdpSocket::bind((Ipv4Addr::LOCALHOST, 0)).await.map_err(|e| format!("udp bind: {e}"))?;
        udp.connect(dns_addr).await.map_err(|e| format!("udp connect: {e}"))?;
        Ok(Dns { addr: dns_addr, udp, next_id: 1, http: Http::new(http_addr), counts: [0; 4], udp_retries: 0, tc_fallbacks: 0 })
    }

    fn id(&mut self) -> u16 {
        self.next_id = self.next_id.wrapping_add(1).max(1);
        self.next_id
    }

    /// Sends the query and returns the parsed response (budget exhaustion is an `Err`,
    /// which callers turn into an inconclusive sub-run, never into a verdict).
    pub async fn query(&mut self, name: &Labels, qtype: u16, transport: Transport) -> Result<Msg, String> {
        let id = self.id();
        match transport {
            Transport::Udp => {
                self.counts[0] += 1;
                let q = wire::build_query(id, name, qtype, true);
                let mut buf = vec![0u8; 65536];
                for attempt in 0..4 {
                    if attempt > 0 {
                        self.udp_retries += 1;
                    }
                    self.udp.send(&q).await.map_err(|e| format!("udp send: {e}"))?;
                    let deadline = tokio::time::Instant::now() + Duration::from_secs(5);
                    loop {
                        match tokio::time::timeout_at(deadline, self.udp.recv(&mut buf)).await {
                            Err(_) => break,
                            Ok(Err(e)) => return Err(format!("udp recv: {e}")),
                            Ok(Ok(n)) => {
                                if n >= 2 && u16::from_be_bytes([buf[0], buf[1]]) == id {
                                    let m = wire::parse(&buf[..n]).map_err(|e| format!("unparsable udp reply: {e}"))?;
                                    if m.truncated {
                                        self.tc_fallbacks += 1;
                                        return self.tcp(name, qtype).await;
                                    }
                                    return Ok(m);
                                }
                                // stale reply to an earlier (retried) query: ignore
                            }
                        }
                    }
                }
                Err("no udp reply after 4 attempts".into())
            }
            Transport::Tcp => {
                self.counts[1] += 1;
                self.tcp(name, qtype).await
            }
            Transport::DohGet => {
                self.counts[2] += 1;
                let q = wire::build_query(id, name, qtype, false);
                let b64 = data_encoding::BASE64URL_NOPAD.encode(&q);
                let r = self.http.request("GET", &format!("/dns-query?dns={b64}"), &[("accept", "application/dns-message")], Vec::new()).await?;
                if r.status != 200 {
                    return Err(format!("doh get status {}", r.status));
                }
                wire::parse(&r.body).map_err(|e| format!("unparsable doh reply: {e}"))
            }
            Transport::DohPost => {
                self.counts[3] += 1;
                let q = wire::build_query(id, name, qtype, false);
                let r = self.http.request("POST", "/dns-query", &[("content-type", "application/dns-message")], q).await?;
                if r.status != 200 {
                    return Err(format!("doh post status {}", r.status));
                }
                wire::parse(&r.body).map_err(|e| format!("unparsable doh reply: {e}"))
            }
        }
    }

    async fn tcp(&mut self, name: &Labels, qtype: u16) -> Result<Msg, String> {
        let id = self.id();
        let q = wire::build_query(id, name, qtype, true);
        let fut = async {
            let mut s = TcpStream::connect(self.addr).await.map_err(|e| format!("tcp connect: {e}"))?;
            let mut framed = (q.len() as u16).to_be_bytes().to_vec();
            framed.extend_from_slice(&q);
            s.write_all(&framed).await.map_err(|e| format!("tcp write: {e}"))?;
            let mut l = [0u8; 2];
            s.read_exact(&mut l).await.map_err(|e| format!("tcp read: {e}"))?;
            let mut b = vec![0u8; u16::from_be_bytes(l) as usize];
            s.read_exact(&mut b).await.map_err(|e| format!("tcp read: {e}"))?;
            wire::parse(&b).map_err(|e| format!("unparsable tcp reply: {e}"))
        };
        tokio::time::timeout(Duration::from_secs(20), fut).await.map_err(|_| "tcp timeout".to_string())?
    }
}
