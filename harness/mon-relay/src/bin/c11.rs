//! C11 — relay protocol version negotiation picks the best common version.
//!
//! S (server side): a real plain-HTTP `Server`; raw TCP websocket-upgrade requests whose
//! `Sec-WebSocket-Protocol` value is generated: up to 6 tokens from {v1, v2, unknown versions,
//! case variants, prefixes/suffixes, empty, foreign sub-protocols, non-ASCII}, 0-3 spaces/tabs
//! around commas, duplicates, header missing, offer split over two header lines.
//!   reference: split on ',', strip spaces/tabs, exact match against the two supported names,
//!   take the newest; upgrade (101 + `Sec-WebSocket-Protocol: <newest>`) iff at least one
//!   supported token was offered.
//!   For a sample of the upgraded connections the harness completes the websocket + relay
//!   handshake by hand, has the same endpoint id connect again, and checks that the displaced
//!   connection is told so with the frame of *its* version (Health for v1, Status for v2).
//! C (client side): the real `ClientBuilder::connect` against a harness TCP server that
//!   completes the upgrade with a chosen answer (v1, v2, padded, unknown, absent, a list,
//!   wrong case, empty, garbage, non-ASCII) and plays the relay handshake; connect must
//!   succeed iff the answer names one supported version, and the connected client must then
//!   decode the frame of exactly that version (Health under v1 / Status under v2) and reject
//!   the other one.
//! Open points (accepted either way, counted): non-text offers; an answer given in two lines.

use std::{collections::BTreeMap, sync::Arc, time::Duration};

use bytes::Bytes;
use common::{Report, Rng, args, catch};
use futures_util::{SinkExt, StreamExt};
use iroh_base::SecretKey;
use iroh_relay::{
    client::ClientBuilder,
    http::ProtocolVersion,
    protos::relay::{RelayToClientMsg, Status},
    server::{RelayConfig, Server, ServerConfig},
};
use mon_relay::proto_util as pu;
use serde_json::{Value, json};
use tokio::net::{TcpListener, TcpStream};

type Local = BTreeMap<String, u64>;
fn bump(l: &mut Local, k: &str) {
    *l.entry(k.to_string()).or_default() += 1;
}

const BUDGET: Duration = Duration::from_secs(30);
const V1: &str = "iroh-relay-v1";
const V2: &str = "iroh-relay-v2";

#[derive(Debug, Clone, PartialEq, Eq)]
enum Expect {
    Upgrade(&'static str),
    Reject,
}

fn is_ascii_text(b: &[u8]) -> bool {
    b.iter().all(|&c| c == b'\t' || (32..=126).contains(&c))
}

fn trim_ows(mut v: &[u8]) -> &[u8] {
    while let [b' ' | b'\t', rest @ ..] = v {
        v = rest;
    }
    while let [rest @ .., b' ' | b'\t'] = v {
        v = rest;
    }
    v
}

/// Reference negotiation over the given header lines (all of them, RFC 6455 §4.1).
fn reference(lines: &[&[u8]]) -> Expect {
    let mut best: Option<&'static str> = None;
    for line in lines {
        for tok in line.split(|&c| c == b',') {
            let t = trim_ows(tok);
            if t == V2.as_bytes() {
                best = Some(V2);
            } else if t == V1.as_bytes() && best.is_none() {
                best = Some(V1);
            }
        }
    }
    match best {
        Some(v) => Expect::Upgrade(v),
        None => Expect::Reject,
    }
}

fn gen_token(rng: &mut Rng) -> Vec<u8> {
    let t: &[u8] = match rng.below(24) {
        0..=4 => V1.as_bytes(),
        5..=9 => V2.as_bytes(),
        10 => b"iroh-relay-v3",
        11 => b"iroh-relay-v0",
        12 => b"iroh-relay-v10",
        13 => b"iroh-relay-v",
        14 => b"IROH-RELAY-V2",
        15 => b"Iroh-Relay-v1",
        16 => b"",
        17 => b"iroh-relay-v2x",
        18 => b"xiroh-relay-v1",
        19 => b"iroh-relay-v1 iroh-relay-v2",
        20 => b"iroh-relay-v2;q=1",
        21 => b"websocket",
        22 => b"iroh-relay-v2\xe9",
        _ => b"chat",
    };
    t.to_vec()
}

fn gen_line(rng: &mut Rng) -> Vec<u8> {
    let n = match rng.below(10) {
        0 => 0,
        1..=3 => 1,
        4..=6 => 2,
        7 => 3,
        8 => 4,
        _ => rng.range(5, 6),
    };
    let mut v = Vec::new();
    for i in 0..n {
        if i > 0 {
            v.push(b',');
        }
        let pad = |rng: &mut Rng, v: &mut Vec<u8>| {
            if rng.chance(1, 2) {
                for _ in 0..rng.below(4) {
                    v.push(if rng.chance(1, 4) { b'\t' } else { b' ' });
                }
            }
        };
        pad(rng, &mut v);
        v.extend(gen_token(rng));
        pad(rng, &mut v);
    }
    v
}

fn ws_key(rng: &mut Rng) -> String {
    data_encoding::BASE64.encode(&rng.array::<16>())
}

struct Offer {
    lines: Vec<Vec<u8>>,
}

fn offer_json(o: &Offer) -> Value {
    json!({"lines_hex": o.lines.iter().map(|l| common::hex(l)).collect::<Vec<_>>(), "lines": o.lines.iter().map(|l| String::from_utf8_lossy(l).into_owned()).collect::<Vec<_>>()})
}

/// Sends one upgrade request; returns (head, stream).
async fn upgrade(addr: std::net::SocketAddr, o: &Offer, key: &str) -> Option<(pu::Head, TcpStream)> {
    let mut s = tokio::time::timeout(BUDGET, TcpStream::connect(addr)).await.ok()?.ok()?;
    let mut headers = pu::upgrade_headers(&addr.to_string(), key);
    for l in &o.lines {
        headers.push(("Sec-WebSocket-Protocol", l.clone()));
    }
    pu::write_request(&mut s, "GET /relay HTTP/1.1", &headers).await.ok()?;
    let head = pu::read_head(&mut s, BUDGET).await?;
    Some((head, s))
}

/// After a 101: finish websocket + relay handshake by hand, get displaced by a second
/// connection of the same id, report the first version-specific frame (11 Health / 13 Status).
async fn spoken_version_frame(stream: TcpStream, url: &iroh_base::RelayUrl, sk: &SecretKey) -> Result<Option<u64>, String> {
    let mut ws = tokio_websockets::ClientBuilder::new().take_over(stream);
    let step = |what: &'static str| move |_| format!("budget exhausted: {what}");
    let first = tokio::time::timeout(BUDGET, ws.next()).await.map_err(step("challenge"))?;
    let msg = first.ok_or("closed before challenge")?.map_err(|e| format!("ws: {e}"))?;
    let payload: Bytes = msg.into_payload().into();
    let (tag, n) = pu::read_varint(&payload).ok_or("empty frame")?;
    if tag != pu::TAG_SERVER_CHALLENGE {
        return Err(format!("expected challenge, got tag {tag}"));
    }
    let c: [u8; 16] = payload[n..].try_into().map_err(|_| "challenge length")?;
    ws.send(tokio_websockets::Message::binary(Bytes::from(pu::client_auth_frame(sk, &c)))).await.map_err(|e| format!("ws send: {e}"))?;
    let confirm = tokio::time::timeout(BUDGET, ws.next()).await.map_err(step("confirm"))?;
    let msg = confirm.ok_or("closed before confirm")?.map_err(|e| format!("ws: {e}"))?;
    let payload: Bytes = msg.into_payload().into();
    if pu::read_varint(&payload).map(|x| x.0) != Some(pu::TAG_SERVER_CONFIRMS) {
        return Err("not confirmed".into());
    }
    // second connection with the same endpoint id, through the real client
    let second = tokio::time::timeout(
        BUDGET,
        ClientBuilder::new(url.clone(), sk.clone(), iroh_dns::dns::DnsResolver::new())
            .tls_client_config(iroh_relay::tls::make_dangerous_client_config())
            .connect(),
    )
    .await
    .map_err(step("second connect"))?
    .map_err(|e| format!("second connect: {e:#}"))?;
    // what is the displaced connection told?
    let res = loop {
        let next = tokio::time::timeout(BUDGET, ws.next()).await.map_err(step("displacement notice"))?;
        match next {
            None | Some(Err(_)) => break None,
            Some(Ok(m)) => {
                if !m.is_binary() {
                    continue;
                }
                let p: Bytes = m.into_payload().into();
                match pu::read_varint(&p).map(|x| x.0) {
                    Some(t @ (pu::TAG_HEALTH | pu::TAG_STATUS)) => break Some(t),
                    _ => continue,
                }
            }
        }
    };
    drop(second);
    Ok(res)
}

async fn server_part(rep: &Report, l: &mut Local, rng: &mut Rng, n: u64, sample_every: u64) {
    let mut cfg = ServerConfig::default();
    cfg.relay = Some(RelayConfig::new((std::net::Ipv4Addr::LOCALHOST, 0)));
    let server = match Server::spawn(cfg).await {
        Ok(s) => s,
        Err(e) => {
            rep.inconclusive("server-spawn-failed");
            rep.note(format!("{e}"));
            return;
        }
    };
    let addr = server.http_addr().unwrap();
    let url: iroh_base::RelayUrl = format!("http://{addr}").parse().unwrap();
    for i in 0..n {
        let o = match rng.below(12) {
            0 => Offer { lines: vec![] },
            1 | 2 => Offer { lines: vec![gen_line(rng), gen_line(rng)] },
            _ => Offer { lines: vec![gen_line(rng)] },
        };
        check_offer(rep, l, rng, addr, &url, &o, i % sample_every == 0).await;
        if i % 256 == 0 && rep.violation_count() > 100 {
            break;
        }
    }
    let _ = tokio::time::timeout(Duration::from_secs(10), server.shutdown()).await;
}

async fn check_offer(rep: &Report, l: &mut Local, rng: &mut Rng, addr: std::net::SocketAddr, url: &iroh_base::RelayUrl, o: &Offer, speak: bool) {
    bump(l, "__evals");
    let replay = json!({"part": "S", "offer": offer_json(o)});
    let key = ws_key(rng);
    let Some((head, stream)) = upgrade(addr, o, &key).await else {
        rep.inconclusive("S-no-http-response");
        return;
    };
    let status = head.status().unwrap_or(0);
    let answers = head.get_all("sec-websocket-protocol");
    let lines: Vec<&[u8]> = o.lines.iter().map(|x| x.as_slice()).collect();
    let all_text = lines.iter().all(|x| is_ascii_text(x));
    let union = reference(&lines);
    let first_only = reference(&lines[..lines.len().min(1)]);
    let describe = || format!("status {status}, answer {:?}", answers.iter().map(|a| String::from_utf8_lossy(a).into_owned()).collect::<Vec<_>>());
    bump(l, &format!("S.status.{status}"));

    // what was actually negotiated
    let negotiated: Option<&'static str> = if status == 101 {
        match answers.as_slice() {
            [a] if *a == V1.as_bytes() => Some(V1),
            [a] if *a == V2.as_bytes() => Some(V2),
            _ => {
                rep.violation("C11:upgrade-answer-names-no-single-supported-version", describe(), replay.clone());
                return;
            }
        }
    } else {
        None
    };
    if status == 101 && head.get("sec-websocket-accept") != Some(pu::ws_accept(&key).as_bytes()) {
        rep.note("101 with a wrong Sec-WebSocket-Accept (not part of C11)");
    }

    if !all_text {
        // open: the statement does not say whether a non-text offer may be parsed
        bump(l, "S.open.non-text-offer");
        // (if it is parsed, the text lines alone or all lines may be what counts)
        let text_lines: Vec<&[u8]> = lines.iter().copied().filter(|x| is_ascii_text(x)).collect();
        let text_only = reference(&text_lines);
        match negotiated {
            None => bump(l, "S.open.non-text-offer.rejected"),
            Some(v) if union == Expect::Upgrade(v) || text_only == Expect::Upgrade(v) => bump(l, "S.open.non-text-offer.upgraded-to-newest"),
            Some(_) => rep.violation("C11:non-text-offer-upgraded-to-wrong-version", describe(), replay.clone()),
        }
        return;
    }
    let multi = lines.len() > 1;
    let expected = &union;
    let ok = match (expected, negotiated) {
        (Expect::Reject, None) => true,
        (Expect::Upgrade(v), Some(w)) => *v == w,
        _ => false,
    };
    if ok {
        match expected {
            Expect::Reject => bump(l, if lines.is_empty() { "S.ok.rejected.header-missing" } else { "S.ok.rejected.no-supported-token" }),
            Expect::Upgrade(v) => {
                bump(l, &format!("S.ok.upgraded.{v}"));
                let both = lines.iter().any(|x| x.windows(V1.len()).any(|w| w == V1.as_bytes())) && *v == V2;
                if both {
                    bump(l, "S.ok.upgraded.newest-of-both");
                }
            }
        }
        let ntok: usize = lines.iter().map(|x| x.split(|&c| c == b',').count()).sum();
        if ntok >= 2 || lines.iter().any(|x| x.contains(&b'\t') || x.windows(2).any(|w| w == b" ," || w == b", ")) {
            rep.nontrivial(format!("S/{:?}", o.lines).as_bytes());
            if rep.want_sample() && ntok >= 3 {
                rep.sample(json!({"offer": offer_json(o)["lines"], "status": status, "answer": negotiated}));
            }
        }
    } else {
        // name the failure
        let sig = if multi && {
            let f_ok = match (&first_only, negotiated) {
                (Expect::Reject, None) => true,
                (Expect::Upgrade(v), Some(w)) => *v == w,
                _ => false,
            };
            f_ok
        } {
            match negotiated {
                None => "C11:offer-split-over-two-header-lines:supported-version-in-second-line-rejected",
                Some(_) => "C11:offer-split-over-two-header-lines:older-version-chosen",
            }
        } else {
            match (expected, negotiated) {
                (Expect::Reject, Some(_)) => "C11:upgraded-without-supported-version-offered",
                (Expect::Upgrade(_), None) => "C11:supported-offer-not-upgraded",
                (Expect::Upgrade(v), Some(_)) if *v == V2 => "C11:older-version-chosen-although-newer-offered",
                _ => "C11:unoffered-version-chosen",
            }
        };
        rep.violation(sig, format!("offer {:?}: expected {expected:?}, got {}", offer_json(o)["lines"], describe()), replay.clone());
        return;
    }

    // do both ends speak the negotiated version?
    if let (Some(v), true) = (negotiated, speak) {
        let sk = SecretKey::from_bytes(&rng.array::<32>());
        match spoken_version_frame(stream, url, &sk).await {
            Err(e) => {
                rep.inconclusive("S-speak-check-not-completed");
                rep.note(format!("speak check ({v}): {e}"));
            }
            Ok(None) => bump(l, "S.speak.no-version-specific-frame-before-close"),
            Ok(Some(tag)) => {
                let want = if v == V1 { pu::TAG_HEALTH } else { pu::TAG_STATUS };
                if tag == want {
                    bump(l, &format!("S.speak.{v}.got-{}", if tag == pu::TAG_HEALTH { "health" } else { "status" }));
                    rep.nontrivial(format!("S-speak/{v}").as_bytes());
                } else {
                    rep.violation(
                        &format!("C11:{}-frame-sent-on-{v}-connection", if tag == pu::TAG_HEALTH { "health(v1)" } else { "status(v2)" }),
                        format!("negotiated {v}, displaced connection received frame type {tag}"),
                        json!({"part": "S-speak", "offer": offer_json(o)}),
                    );
                }
            }
        }
    }
}

// ---------------------------------------------------------------------------------------------
// client part

#[derive(Clone, Debug)]
struct Answer {
    name: &'static str,
    lines: Vec<Vec<u8>>,
    /// None = connect must fail; Some(v) = must succeed speaking v; open = two lines
    expect: Option<ProtocolVersion>,
    open: bool,
}

fn answers() -> Vec<Answer> {
    let a = |name, lines: Vec<&[u8]>, expect, open| Answer { name, lines: lines.into_iter().map(|x| x.to_vec()).collect(), expect, open };
    vec![
        a("v1", vec![V1.as_bytes()], Some(ProtocolVersion::V1), false),
        a("v2", vec![V2.as_bytes()], Some(ProtocolVersion::V2), false),
        a("v2-padded", vec![b"   iroh-relay-v2 \t "], Some(ProtocolVersion::V2), false),
        a("v1-padded", vec![b"\tiroh-relay-v1"], Some(ProtocolVersion::V1), false),
        a("absent", vec![], None, false),
        a("v3", vec![b"iroh-relay-v3"], None, false),
        a("v0", vec![b"iroh-relay-v0"], None, false),
        a("list-v1-v2", vec![b"iroh-relay-v1, iroh-relay-v2"], None, false),
        a("list-v2-v1", vec![b"iroh-relay-v2,iroh-relay-v1"], None, false),
        a("upper-case", vec![b"IROH-RELAY-V2"], None, false),
        a("empty", vec![b""], None, false),
        a("garbage", vec![b"chat"], None, false),
        a("prefix", vec![b"iroh-relay-v"], None, false),
        a("suffix", vec![b"iroh-relay-v22"], None, false),
        a("trailing-comma", vec![b"iroh-relay-v2,"], None, false),
        a("non-ascii", vec![b"iroh-relay-v2\xe9"], None, false),
        a("inner-space", vec![b"iroh-relay -v2"], None, false),
        a("two-lines-v1-v2", vec![V1.as_bytes(), V2.as_bytes()], None, true),
        a("two-lines-v3-v2", vec![b"iroh-relay-v3", V2.as_bytes()], None, true),
    ]
}

/// The harness relay: completes the upgrade with `ans`, plays the handshake, then sends a
/// Health frame, a Status frame and a Ping. Returns what the client offered.
async fn fake_relay(listener: &TcpListener, ans: &Answer) -> Result<Vec<u8>, String> {
    let (mut s, _) = tokio::time::timeout(BUDGET, listener.accept()).await.map_err(|_| "accept budget")?.map_err(|e| e.to_string())?;
    let head = pu::read_head(&mut s, BUDGET).await.ok_or("no request head")?;
    let offered = head.get("sec-websocket-protocol").map(|x| x.to_vec()).unwrap_or_default();
    let key = String::from_utf8_lossy(head.get("sec-websocket-key").ok_or("no key")?).into_owned();
    let mut resp = b"HTTP/1.1 101 Switching Protocols\r\nUpgrade: websocket\r\nConnection: Upgrade\r\n".to_vec();
    resp.extend_from_slice(format!("Sec-WebSocket-Accept: {}\r\n", pu::ws_accept(&key)).as_bytes());
    for l in &ans.lines {
        resp.extend_from_slice(b"Sec-WebSocket-Protocol: ");
        resp.extend_from_slice(l);
        resp.extend_from_slice(b"\r\n");
    }
    resp.extend_from_slice(b"\r\n");
    use tokio::io::AsyncWriteExt;
    s.write_all(&resp).await.map_err(|e| e.to_string())?;
    let mut ws = tokio_websockets::ServerBuilder::new().serve(s);
    let bin = |v: Vec<u8>| tokio_websockets::Message::binary(Bytes::from(v));
    // errors from here on mean the client went away (e.g. it rejected the answer)
    let _ = async {
        ws.send(bin(pu::server_challenge_frame(&[0x42; 16]))).await.ok()?;
        let auth = tokio::time::timeout(BUDGET, ws.next()).await.ok()??.ok()?;
        let p: Bytes = auth.into_payload().into();
        if pu::read_varint(&p)?.0 != pu::TAG_CLIENT_AUTH {
            return None;
        }
        ws.send(bin(pu::varint(pu::TAG_SERVER_CONFIRMS, 1))).await.ok()?;
        let mut health = pu::varint(pu::TAG_HEALTH, 1);
        health.extend_from_slice(b"harness health text");
        ws.send(bin(health)).await.ok()?;
        let mut status = pu::varint(pu::TAG_STATUS, 1);
        status.push(1);
        ws.send(bin(status)).await.ok()?;
        let mut ping = pu::varint(pu::TAG_PING, 1);
        ping.extend_from_slice(&[7u8; 8]);
        ws.send(bin(ping)).await.ok()?;
        // keep the connection until the client is done
        while let Ok(Some(Ok(_))) = tokio::time::timeout(BUDGET, ws.next()).await {}
        Some(())
    }
    .await;
    Ok(offered)
}

async fn client_part(rep: &Report, l: &mut Local, rng: &mut Rng, rounds: usize) {
    let listener = TcpListener::bind("127.0.0.1:0").await.unwrap();
    let addr = listener.local_addr().unwrap();
    let url: iroh_base::RelayUrl = format!("http://{addr}").parse().unwrap();
    let listener = Arc::new(listener);
    for _ in 0..rounds {
        for ans in answers() {
            bump(l, "__evals");
            let replay = json!({"part": "C", "answer": ans.name});
            let sk = SecretKey::from_bytes(&rng.array::<32>());
            let builder = ClientBuilder::new(url.clone(), sk, iroh_dns::dns::DnsResolver::new()).tls_client_config(iroh_relay::tls::make_dangerous_client_config());
            let lst = listener.clone();
            let ans2 = ans.clone();
            let relay = tokio::spawn(async move { fake_relay(&lst, &ans2).await });
            let res = match tokio::time::timeout(BUDGET, builder.connect()).await {
                Ok(r) => r,
                Err(_) => {
                    rep.inconclusive("C-connect-budget");
                    relay.abort();
                    continue;
                }
            };
            match res {
                Err(e) => {
                    let s = format!("{e:#}");
                    relay.abort();
                    if let (Some(v), false) = (ans.expect, ans.open) {
                        rep.violation(&format!("C11:client-rejected-supported-answer:{}", ans.name), format!("answer names {v}, connect failed: {s}"), replay);
                    } else {
                        bump(l, &format!("C.rejected.{}", ans.name));
                        if s.to_lowercase().contains("version") {
                            bump(l, "C.rejected.with-version-error");
                        } else {
                            bump(l, "C.rejected.with-other-error");
                            rep.note(format!("answer {}: {s}", ans.name));
                        }
                        rep.nontrivial(format!("C/{}", ans.name).as_bytes());
                    }
                }
                Ok(mut client) => {
                    // which version does the connected client speak?
                    let mut got = Vec::new();
                    for _ in 0..3 {
                        match tokio::time::timeout(BUDGET, client.next()).await {
                            Ok(Some(x)) => got.push(x),
                            _ => break,
                        }
                    }
                    drop(client);
                    match tokio::time::timeout(BUDGET, relay).await {
                        Ok(Ok(Ok(offered))) => {
                            let exp = reference(&[offered.as_slice()]);
                            if exp == Expect::Upgrade(V2) && offered.windows(V1.len()).any(|w| w == V1.as_bytes()) {
                                bump(l, "C.client-offered-v1-and-v2");
                            }
                        }
                        _ => rep.inconclusive("C-fake-relay-did-not-finish"),
                    }
                    let health_ok = matches!(got.first(), Some(Ok(RelayToClientMsg::Health { problem })) if problem == "harness health text");
                    let health_rejected = matches!(got.first(), Some(Err(_)));
                    let status_ok = matches!(got.get(1), Some(Ok(RelayToClientMsg::Status(Status::SameEndpointIdConnected))));
                    let status_rejected = matches!(got.get(1), Some(Err(_)));
                    let ping_ok = matches!(got.get(2), Some(Ok(RelayToClientMsg::Ping(d))) if *d == [7u8; 8]);
                    let speaks = if health_ok && status_rejected {
                        Some(ProtocolVersion::V1)
                    } else if health_rejected && status_ok {
                        Some(ProtocolVersion::V2)
                    } else {
                        None
                    };
                    let describe = format!("{:?}", got.iter().map(|x| match x { Ok(m) => format!("Ok({m})"), Err(e) => format!("Err({e})") }).collect::<Vec<_>>());
                    if got.len() < 3 || !ping_ok {
                        rep.inconclusive("C-frames-not-all-received");
                        rep.note(format!("answer {}: {describe}", ans.name));
                        continue;
                    }
                    match (ans.expect, ans.open) {
                        (None, false) => rep.violation(&format!("C11:client-accepted-unsupported-answer:{}", ans.name), format!("connect succeeded, client then decoded {describe}"), replay),
                        (Some(v), false) => {
                            if speaks == Some(v) {
                                bump(l, &format!("C.accepted.{}.speaks-{v}", ans.name));
                                rep.nontrivial(format!("C/{}", ans.name).as_bytes());
                            } else {
                                rep.violation(&format!("C11:client-speaks-other-version-than-negotiated:{}", ans.name), format!("negotiated {v}, client decoded {describe}"), replay);
                            }
                        }
                        (_, true) => {
                            // answer in two lines: whichever single supported version it took
                            let named: Vec<&[u8]> = ans.lines.iter().map(|x| x.as_slice()).collect();
                            let ok = match speaks {
                                Some(ProtocolVersion::V1) => named.contains(&V1.as_bytes()),
                                Some(ProtocolVersion::V2) => named.contains(&V2.as_bytes()),
                                _ => false,
                            };
                            if ok {
                                bump(l, &format!("C.open.{}.accepted", ans.name));
                            } else {
                                rep.violation(&format!("C11:client-speaks-unnamed-version:{}", ans.name), describe, replay);
                            }
                        }
                    }
                }
            }
        }
    }
}

fn flush(rep: &Report, l: &Local) {
    for (k, v) in l {
        if k == "__evals" { rep.evals(*v) } else { rep.count(k, *v) }
    }
}

fn main() {
    let a = args();
    pu::self_test();
    let rep = Report::new(
        "C11",
        "S: seeded Sec-WebSocket-Protocol offers (0-6 tokens from supported/unknown/case-variant/affixed/empty/foreign/non-ASCII names, 0-3 spaces or tabs around commas, duplicates, header missing, two header lines) sent as raw upgrade requests to a real Server, sampled upgrades continued through the relay handshake to a same-id displacement; C: the real ClientBuilder::connect against a harness relay answering with each candidate Sec-WebSocket-Protocol value. non-trivial = distinct offer with >= 2 tokens or padding that was decided correctly (S), a displaced connection told in its version's frame (S-speak), each distinct server answer decided (C)",
        &a,
    );
    if let Some(p) = &a.replay {
        let v: Value = serde_json::from_str(&std::fs::read_to_string(p).unwrap()).unwrap();
        let r = v["replay"].clone();
        let rt = tokio::runtime::Builder::new_multi_thread().worker_threads(2).enable_all().build().unwrap();
        let mut l = Local::new();
        let mut rng = Rng::derive(a.seed, "C11-replay", 0);
        rt.block_on(async {
            if r["part"].as_str() == Some("C") {
                client_part(&rep, &mut l, &mut rng, 1).await;
            } else {
                let mut cfg = ServerConfig::default();
                cfg.relay = Some(RelayConfig::new((std::net::Ipv4Addr::LOCALHOST, 0)));
                let server = Server::spawn(cfg).await.unwrap();
                let addr = server.http_addr().unwrap();
                let url: iroh_base::RelayUrl = format!("http://{addr}").parse().unwrap();
                let unhex = |s: &str| -> Vec<u8> { (0..s.len() / 2).map(|i| u8::from_str_radix(&s[2 * i..2 * i + 2], 16).unwrap()).collect() };
                let o = Offer { lines: r["offer"]["lines_hex"].as_array().unwrap().iter().map(|x| unhex(x.as_str().unwrap())).collect() };
                check_offer(&rep, &mut l, &mut rng, addr, &url, &o, true).await;
                let _ = tokio::time::timeout(Duration::from_secs(10), server.shutdown()).await;
            }
        });
        flush(&rep, &l);
        rep.finish();
        return;
    }
    let threads = a.pick(2, 8) as u64;
    let n_offers = a.pick(5000u64, 200_000u64);
    let sample_every = a.pick(10u64, 25u64);
    let rounds = a.pick(4usize, 40usize);
    std::thread::scope(|s| {
        for shard in 0..threads {
            let rep = &rep;
            let a = &a;
            s.spawn(move || {
                let mut rng = Rng::derive(a.seed, "C11", shard);
                let mut l = Local::new();
                let r = catch(|| {
                    let rt = tokio::runtime::Builder::new_multi_thread().worker_threads(2).enable_all().build().unwrap();
                    rt.block_on(async {
                        server_part(rep, &mut l, &mut rng, n_offers, sample_every).await;
                        if shard == 0 {
                            client_part(rep, &mut l, &mut rng, rounds).await;
                        }
                    });
                });
                if let Err(p) = r {
                    rep.violation(&format!("C11:panic@{}", common::short_loc(&p)), p, json!({"shard": shard}));
                }
                flush(rep, &l);
            });
        }
    });
    for k in [
        "S.ok.upgraded.iroh-relay-v1", "S.ok.upgraded.iroh-relay-v2", "S.ok.upgraded.newest-of-both",
        "S.ok.rejected.no-supported-token", "S.ok.rejected.header-missing",
        "S.speak.iroh-relay-v1.got-health", "S.speak.iroh-relay-v2.got-status",
    ] {
        rep.require(k, 3);
    }
    for k in ["C.accepted.v1.speaks-iroh-relay-v1", "C.accepted.v2.speaks-iroh-relay-v2", "C.rejected.v3", "C.rejected.absent", "C.rejected.list-v1-v2", "C.client-offered-v1-and-v2"] {
        rep.require(k, 1);
    }
    rep.finish();
}
