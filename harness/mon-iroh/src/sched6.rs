//! Per-thread step controller for the `verif-hooks` pause points (used by c26, c30).
//!
//! Included with `#[path]` by the binaries that need it.  Every *actor* is an OS thread
//! that registered an id in a thread local.  Actors park at the pause points whose names
//! are enabled (and at the virtual points "start" / harness-side `point(..)` calls) and
//! continue only when the controller grants them a step.  The controller therefore
//! imposes one sequential interleaving at pause-point granularity; enumerating the
//! choices (stateless DFS with re-execution, [`Dfs`]) enumerates all of them.
//!
//! An actor that was granted a step may block on a lock held by a parked actor.  Then
//! `step` returns `Blocked` after `block_wait`; the actor stays "running" and parks or
//! finishes by itself once the holder moved on.  This timing only influences *which*
//! schedules are explored, never a verdict: oracles use the recorded order of events.
#![allow(dead_code)]

use std::{
    cell::Cell,
    collections::BTreeSet,
    sync::{
        Arc, Condvar, Mutex,
        atomic::{AtomicU64, Ordering},
    },
    thread::JoinHandle,
    time::{Duration, Instant},
};

#[derive(Clone, Copy, Debug, PartialEq, Eq)]
pub enum St {
    Parked(&'static str),
    Running,
    Done,
}

struct State {
    st: Vec<St>,
    grants: Vec<u32>,
    enabled: BTreeSet<&'static str>,
    /// (actor, point) in the order actors parked
    trace: Vec<(usize, &'static str)>,
    gave_up: u64,
    free_run: bool,
}

pub struct Ctl {
    m: Mutex<State>,
    cv: Condvar,
}

thread_local! {
    static ACTOR: Cell<Option<usize>> = const { Cell::new(None) };
}

static CURRENT: Mutex<Option<Arc<Ctl>>> = Mutex::new(None);

/// Longest time a parked actor waits for a grant before it gives up and runs on.
pub const PARK_LIMIT: Duration = Duration::from_secs(30);

fn current() -> Option<Arc<Ctl>> {
    CURRENT.lock().unwrap_or_else(|e| e.into_inner()).clone()
}

static STRESS_US: AtomicU64 = AtomicU64::new(0);
static STRESS_STATE: AtomicU64 = AtomicU64::new(0x9e37_79b9_7f4a_7c15);
static STRESS_HITS: AtomicU64 = AtomicU64::new(0);

/// Free-running threads (no actor id) sleep a seeded 0..=max_us microseconds at every
/// pause point (0 = pass straight through).
pub fn set_stress(max_us: u64, seed: u64) {
    STRESS_STATE.store(seed | 1, Ordering::Relaxed);
    STRESS_US.store(max_us, Ordering::Relaxed);
}

pub fn stress_hits() -> u64 {
    STRESS_HITS.load(Ordering::Relaxed)
}

fn on_pause(name: &'static str) {
    let Some(id) = ACTOR.with(|a| a.get()) else {
        let max = STRESS_US.load(Ordering::Relaxed);
        if max > 0 {
            STRESS_HITS.fetch_add(1, Ordering::Relaxed);
            let mut x = STRESS_STATE.load(Ordering::Relaxed);
            x ^= x << 13;
            x ^= x >> 7;
            x ^= x << 17;
            STRESS_STATE.store(x, Ordering::Relaxed);
            match x % (max + 1) {
                0 => std::thread::yield_now(),
                us => std::thread::sleep(Duration::from_micros(us)),
            }
        }
        return;
    };
    if let Some(c) = current() {
        c.park(id, name, false);
    }
}

/// Installs the pause handler (process wide).
pub fn install() {
    iroh_base::verif_hooks::set_pause_handler(Some(Arc::new(on_pause)));
}

/// Harness-side pause point (e.g. inside a recording service callback).
pub fn point(name: &'static str) {
    on_pause(name);
}

/// Id of the actor running on this thread, if any.
pub fn actor_id() -> Option<usize> {
    ACTOR.with(|a| a.get())
}

impl Ctl {
    fn park(&self, id: usize, name: &'static str, always: bool) {
        let mut g = self.m.lock().unwrap_or_else(|e| e.into_inner());
        if g.free_run || !(always || g.enabled.contains(name)) {
            return;
        }
        g.st[id] = St::Parked(name);
        g.trace.push((id, name));
        self.cv.notify_all();
        let deadline = Instant::now() + PARK_LIMIT;
        loop {
            if g.free_run {
                break;
            }
            if g.grants[id] > 0 {
                g.grants[id] -= 1;
                break;
            }
            let now = Instant::now();
            if now >= deadline {
                g.gave_up += 1;
                break;
            }
            let (ng, _) = self
                .cv
                .wait_timeout(g, deadline - now)
                .unwrap_or_else(|e| e.into_inner());
            g = ng;
        }
        g.st[id] = St::Running;
        self.cv.notify_all();
    }
}

/// One controlled execution: a set of actor threads and their controller.
pub struct Run {
    ctl: Arc<Ctl>,
    handles: Vec<Option<JoinHandle<()>>>,
    pub block_wait: Duration,
}

#[derive(Clone, Copy, Debug, PartialEq, Eq)]
pub enum Step {
    Parked(&'static str),
    Done,
    Blocked,
}

impl Run {
    /// `enabled`: names of the pause points at which actors park.
    pub fn new(enabled: &[&'static str]) -> Run {
        let ctl = Arc::new(Ctl {
            m: Mutex::new(State {
                st: Vec::new(),
                grants: Vec::new(),
                enabled: enabled.iter().copied().collect(),
                trace: Vec::new(),
                gave_up: 0,
                free_run: false,
            }),
            cv: Condvar::new(),
        });
        *CURRENT.lock().unwrap_or_else(|e| e.into_inner()) = Some(ctl.clone());
        Run {
            ctl,
            handles: Vec::new(),
            block_wait: Duration::from_millis(120),
        }
    }

    /// Spawns an actor; it parks at "start" before running `f`.
    pub fn spawn(&mut self, f: impl FnOnce() + Send + 'static) -> usize {
        let id = {
            let mut g = self.ctl.m.lock().unwrap();
            g.st.push(St::Running);
            g.grants.push(0);
            g.st.len() - 1
        };
        let ctl = self.ctl.clone();
        let h = std::thread::spawn(move || {
            ACTOR.with(|a| a.set(Some(id)));
            ctl.park(id, "start", true);
            // also marks the actor done when `f` unwinds
            struct DoneGuard(Arc<Ctl>, usize);
            impl Drop for DoneGuard {
                fn drop(&mut self) {
                    let mut g = self.0.m.lock().unwrap_or_else(|e| e.into_inner());
                    g.st[self.1] = St::Done;
                    self.0.cv.notify_all();
                }
            }
            let _guard = DoneGuard(ctl.clone(), id);
            f();
        });
        self.handles.push(Some(h));
        // wait until it is parked at "start"
        let mut g = self.ctl.m.lock().unwrap();
        while g.st[id] == St::Running {
            g = self.ctl.cv.wait(g).unwrap();
        }
        id
    }

    pub fn state(&self, id: usize) -> St {
        self.ctl.m.lock().unwrap().st[id]
    }

    pub fn states(&self) -> Vec<St> {
        self.ctl.m.lock().unwrap().st.clone()
    }

    fn wait_settled(&self, id: usize, limit: Duration) -> St {
        let deadline = Instant::now() + limit;
        let mut g = self.ctl.m.lock().unwrap();
        loop {
            if g.st[id] != St::Running {
                return g.st[id];
            }
            let now = Instant::now();
            if now >= deadline {
                return St::Running;
            }
            let (ng, _) = self.ctl.cv.wait_timeout(g, deadline - now).unwrap();
            g = ng;
        }
    }

    /// Lets parked actor `id` run to its next pause point / its end.
    pub fn step(&self, id: usize) -> Step {
        {
            let mut g = self.ctl.m.lock().unwrap();
            debug_assert!(matches!(g.st[id], St::Parked(_)));
            g.grants[id] += 1;
            // mark running right away so that wait_settled does not see the old park
            g.st[id] = St::Running;
            self.ctl.cv.notify_all();
        }
        let r = match self.wait_settled(id, self.block_wait) {
            St::Parked(n) => Step::Parked(n),
            St::Done => Step::Done,
            St::Running => Step::Blocked,
        };
        // actors blocked earlier may have been unblocked by this step: give them a chance
        // to reach their next point so that the set of parked actors is stable
        let n = self.ctl.m.lock().unwrap().st.len();
        for other in 0..n {
            if other != id && self.state(other) == St::Running {
                self.wait_settled(other, self.block_wait);
            }
        }
        r
    }

    /// Actors currently parked (= the choices of the scheduler).
    pub fn parked(&self) -> Vec<usize> {
        self.ctl
            .m
            .lock()
            .unwrap()
            .st
            .iter()
            .enumerate()
            .filter(|(_, s)| matches!(s, St::Parked(_)))
            .map(|(i, _)| i)
            .collect()
    }

    pub fn all_done(&self) -> bool {
        self.ctl.m.lock().unwrap().st.iter().all(|s| *s == St::Done)
    }

    pub fn running(&self) -> Vec<usize> {
        self.ctl
            .m
            .lock()
            .unwrap()
            .st
            .iter()
            .enumerate()
            .filter(|(_, s)| **s == St::Running)
            .map(|(i, _)| i)
            .collect()
    }

    /// Waits (generously) until some running actor parks or finishes.  Returns false when
    /// nothing changed within `limit` (a real deadlock of the code under test, or a hang).
    pub fn wait_any_change(&self, limit: Duration) -> bool {
        let deadline = Instant::now() + limit;
        let mut g = self.ctl.m.lock().unwrap();
        let before = g.st.clone();
        loop {
            if g.st != before {
                return true;
            }
            let now = Instant::now();
            if now >= deadline {
                return false;
            }
            let (ng, _) = self.ctl.cv.wait_timeout(g, deadline - now).unwrap();
            g = ng;
        }
    }

    pub fn trace(&self) -> Vec<(usize, &'static str)> {
        self.ctl.m.lock().unwrap().trace.clone()
    }

    pub fn gave_up(&self) -> u64 {
        self.ctl.m.lock().unwrap().gave_up
    }

    /// Releases everything and joins the actor threads.  Returns false if an actor did not
    /// finish within `limit` (its thread is then leaked).
    pub fn finish(mut self, limit: Duration) -> bool {
        {
            let mut g = self.ctl.m.lock().unwrap();
            g.free_run = true;
            self.ctl.cv.notify_all();
        }
        let deadline = Instant::now() + limit;
        let mut ok = true;
        for id in 0..self.handles.len() {
            let left = deadline.saturating_duration_since(Instant::now());
            if self.wait_settled_done(id, left) {
                if let Some(h) = self.handles[id].take() {
                    let _ = h.join();
                }
            } else {
                ok = false;
            }
        }
        *CURRENT.lock().unwrap_or_else(|e| e.into_inner()) = None;
        ok
    }

    fn wait_settled_done(&self, id: usize, limit: Duration) -> bool {
        let deadline = Instant::now() + limit;
        let mut g = self.ctl.m.lock().unwrap();
        loop {
            if g.st[id] == St::Done {
                return true;
            }
            let now = Instant::now();
            if now >= deadline {
                return false;
            }
            let (ng, _) = self.ctl.cv.wait_timeout(g, deadline - now).unwrap();
            g = ng;
        }
    }
}

/// Stateless depth-first enumeration of scheduler choices by re-execution.
#[derive(Default)]
pub struct Dfs {
    /// (choice taken, number of alternatives) per depth
    stack: Vec<(usize, usize)>,
    depth: usize,
    started: bool,
    pub truncated: u64,
}

impl Dfs {
    pub fn new() -> Self {
        Self::default()
    }

    /// Starts the next execution; returns false when the tree is exhausted.
    pub fn next_run(&mut self) -> bool {
        if !self.started {
            self.started = true;
            self.depth = 0;
            return true;
        }
        // backtrack: drop exhausted tail, advance the deepest open choice
        self.stack.truncate(self.depth);
        while let Some((c, n)) = self.stack.pop() {
            if c + 1 < n {
                self.stack.push((c + 1, n));
                self.depth = 0;
                return true;
            }
        }
        false
    }

    /// Picks among `n` alternatives (n >= 1) at the current depth.
    pub fn choose(&mut self, n: usize) -> usize {
        assert!(n >= 1);
        let c = if self.depth < self.stack.len() {
            let (c, old_n) = self.stack[self.depth];
            if old_n != n || c >= n {
                // the execution diverged from the recorded one (timing of a blocked
                // actor); continue with a valid choice and forget the stale tail
                self.truncated += 1;
                let c = c.min(n - 1);
                self.stack.truncate(self.depth);
                self.stack.push((c, n));
                c
            } else {
                c
            }
        } else {
            self.stack.push((0, n));
            0
        };
        self.depth += 1;
        c
    }

    pub fn choices(&self) -> Vec<usize> {
        self.stack[..self.depth.min(self.stack.len())]
            .iter()
            .map(|(c, _)| *c)
            .collect()
    }
}
