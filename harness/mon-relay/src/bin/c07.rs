//! C07 — access control sees exactly one disconnect per admitted relay connection.
//!
//! Oracle (over the `AccessControl` call log, once every connection is gone): every
//! `on_connect -> Allow` has exactly one later `on_disconnect` with the same endpoint id and
//! connection id; a denied connection gets none and is never registered; no
//! `on_disconnect` for an id that was not admitted or before its `on_connect`; connection
//! ids are never reused.
//!
//! Layer A (fault enumeration, deterministic): the relay's admission sequence
//! `handshake::serverside` -> `authorize_with` -> `Clients::register` (the same public
//! functions `http_server::Inner::accept` chains) runs over the in-memory rig on a
//! paused-clock runtime.  The k-th stream operation (read / start_send / flush) fails, for
//! every k of the fault-free run and a few operations into the connection actor, as an
//! error or as end-of-stream, x {Allow, Deny} x {signed challenge, signed key material} x
//! {on_connect immediate, on_connect yielding}; a connection that got registered is then
//! ended by each cause: client close, client error, `disconnect(id, Some(cid))`,
//! `disconnect(id, None)`, displacement by a newer connection, `Clients::shutdown`, write
//! timeout, unanswered keep-alive ping.
//! Layer B (system level): a real `Server` on loopback with the logging policy; honest
//! clients (`ClientBuilder`), denied clients, revoked and displaced clients, clients left
//! connected until server shutdown, and raw websocket clients that abort (SO_LINGER 0)
//! after each protocol step, run concurrently.

use std::{
    collections::{HashMap, HashSet},
    net::Ipv4Addr,
    sync::{Arc, Mutex},
    time::Duration,
};

use bytes::Bytes;
use common::{Report, Rng, args};
use futures_util::{SinkExt, StreamExt};
use iroh_base::{EndpointId, RelayUrl, SecretKey};
use iroh_relay::{
    KeyCache,
    http::ProtocolVersion,
    protos::{
        handshake,
        relay::{ClientToRelayMsg, RelayToClientMsg},
    },
    server::{
        Access, AccessControl, ClientRequest, ConnectionId, DynAccessControl, Metrics, RelayConfig, Server, ServerConfig,
        client::Config, clients::Clients, streams::RelayedStream,
    },
};
use mon_relay::rig::{self, FaultKind, MemIo};
use serde_json::{Value, json};

// ---------------------------------------------------------------------------------------
// the logging access policy

#[derive(Clone, Debug, PartialEq, Eq)]
enum Ev {
    Connect { endpoint: EndpointId, cid: String, allowed: bool },
    Disconnect { endpoint: EndpointId, cid: String },
}

#[derive(Debug, Default)]
struct Policy {
    log: Mutex<Vec<Ev>>,
    cids: Mutex<HashMap<String, ConnectionId>>,
    deny: Mutex<HashSet<EndpointId>>,
    yield_in_connect: std::sync::atomic::AtomicBool,
    notify: tokio::sync::Notify,
}

impl Policy {
    fn events(&self) -> Vec<Ev> {
        self.log.lock().unwrap().clone()
    }
    fn admitted_cid(&self, endpoint: &EndpointId) -> Option<ConnectionId> {
        let log = self.log.lock().unwrap();
        let cid = log.iter().rev().find_map(|e| match e {
            Ev::Connect { endpoint: ep, cid, allowed: true } if ep == endpoint => Some(cid.clone()),
            _ => None,
        })?;
        self.cids.lock().unwrap().get(&cid).copied()
    }
}

impl AccessControl for Policy {
    async fn on_connect(&self, request: &ClientRequest) -> Access {
        if self.yield_in_connect.load(std::sync::atomic::Ordering::SeqCst) {
            tokio::task::yield_now().await;
        }
        let endpoint = request.endpoint_id();
        let allowed = !self.deny.lock().unwrap().contains(&endpoint);
        let cid = request.connection_id();
        self.cids.lock().unwrap().insert(cid.to_string(), cid);
        self.log.lock().unwrap().push(Ev::Connect { endpoint, cid: cid.to_string(), allowed });
        self.notify.notify_waiters();
        if allowed { Access::Allow } else { Access::Deny { reason: Some("denied by policy".into()) } }
    }

    fn on_disconnect(&self, endpoint_id: EndpointId, connection_id: ConnectionId) {
        self.log.lock().unwrap().push(Ev::Disconnect { endpoint: endpoint_id, cid: connection_id.to_string() });
        self.notify.notify_waiters();
    }
}

/// The oracle.  Returns (signature suffix, detail) pairs; `missing` lists admitted
/// connections without a disconnect (judged by the caller: violation when everything is
/// known to be gone, inconclusive when only a wall-clock budget ran out).
struct LogVerdict {
    violations: Vec<(String, String)>,
    missing: Vec<String>,
    admitted: u64,
    denied: u64,
    disconnects: u64,
}

fn check_log(events: &[Ev]) -> LogVerdict {
    let mut v = LogVerdict { violations: vec![], missing: vec![], admitted: 0, denied: 0, disconnects: 0 };
    // cid -> (endpoint, allowed, disconnect count)
    let mut seen: HashMap<String, (EndpointId, bool, u32)> = HashMap::new();
    for e in events {
        match e {
            Ev::Connect { endpoint, cid, allowed } => {
                if seen.contains_key(cid) {
                    v.violations.push(("connection-id-reused".into(), format!("connection id {cid} passed to on_connect twice")));
                }
                seen.insert(cid.clone(), (*endpoint, *allowed, 0));
                if *allowed { v.admitted += 1 } else { v.denied += 1 }
            }
            Ev::Disconnect { endpoint, cid } => {
                v.disconnects += 1;
                match seen.get_mut(cid) {
                    None => v.violations.push(("disconnect-for-unknown-connection".into(), format!("on_disconnect({cid}) without (or before) an on_connect for it"))),
                    Some((ep, allowed, n)) => {
                        if !*allowed {
                            v.violations.push(("disconnect-for-denied-connection".into(), format!("on_disconnect({cid}) for a connection the policy denied")));
                        }
                        if ep != endpoint {
                            v.violations.push(("disconnect-with-other-endpoint-id".into(), format!("on_disconnect({cid}) with another endpoint id than on_connect")));
                        }
                        *n += 1;
                        if *n == 2 && *allowed {
                            v.violations.push(("disconnect-reported-twice".into(), format!("on_disconnect({cid}) called more than once")));
                        }
                    }
                }
            }
        }
    }
    for (cid, (_, allowed, n)) in &seen {
        if *allowed && *n == 0 {
            v.missing.push(cid.clone());
        }
    }
    v
}

// ---------------------------------------------------------------------------------------
// honest client halves (written against the wire format, independent of the crate's client)

fn challenge_reply(secret: &SecretKey, challenge_frame: &[u8]) -> Option<Bytes> {
    // ServerChallenge: type 0, 16 bytes
    if challenge_frame.len() != 17 || challenge_frame[0] != 0 {
        return None;
    }
    let msg = blake3::derive_key("iroh-relay handshake v1 challenge signature", &challenge_frame[1..]);
    let sig = secret.sign(&msg).to_bytes();
    let mut v = vec![1u8]; // ClientAuth
    v.extend_from_slice(secret.public().as_bytes());
    v.push(64);
    v.extend_from_slice(&sig);
    Some(Bytes::from(v))
}

fn key_material_header(secret: &SecretKey, tls_secret: &[u8; 32]) -> http::HeaderValue {
    let mut km = [0u8; 32];
    rig::keying_material(tls_secret, b"iroh-relay handshake v1", Some(secret.public().as_bytes()), &mut km);
    let sig = secret.sign(&km[..16]).to_bytes();
    let mut v = secret.public().as_bytes().to_vec();
    v.push(64);
    v.extend_from_slice(&sig);
    v.extend_from_slice(&km[16..]);
    http::HeaderValue::from_str(&data_encoding::BASE64URL_NOPAD.encode(&v)).expect("header")
}

fn request_parts() -> http::request::Parts {
    http::Request::builder().uri("/relay").body(()).expect("request").into_parts().0
}

// ---------------------------------------------------------------------------------------
// layer A

#[derive(Clone, Copy, Debug, PartialEq, Eq)]
enum Cause {
    ClientClose,
    ClientError,
    DisconnectConn,
    DisconnectId,
    Displaced,
    RegistryShutdown,
    WriteTimeout,
    PingTimeout,
}

const CAUSES: [Cause; 8] = [
    Cause::ClientClose,
    Cause::ClientError,
    Cause::DisconnectConn,
    Cause::DisconnectId,
    Cause::Displaced,
    Cause::RegistryShutdown,
    Cause::WriteTimeout,
    Cause::PingTimeout,
];

#[derive(Clone, Debug)]
struct CaseA {
    key_material: bool,
    deny: bool,
    yielding: bool,
    /// failing operation index (None = fault free) and kind
    fault: Option<(u64, bool)>, // (k, eof)
    cause: Cause,
}

impl CaseA {
    fn to_json(&self) -> Value {
        json!({"layer": "A", "key_material": self.key_material, "deny": self.deny, "yielding": self.yielding,
               "fault_at": self.fault.map(|f| f.0), "fault_eof": self.fault.map(|f| f.1), "cause": format!("{:?}", self.cause)})
    }
    fn from_json(v: &Value) -> Option<CaseA> {
        let cause = CAUSES.iter().copied().find(|c| Some(format!("{c:?}").as_str()) == v["cause"].as_str())?;
        Some(CaseA {
            key_material: v["key_material"].as_bool()?,
            deny: v["deny"].as_bool()?,
            yielding: v["yielding"].as_bool()?,
            fault: v["fault_at"].as_u64().map(|k| (k, v["fault_eof"].as_bool().unwrap_or(false))),
            cause,
        })
    }
}

/// The admission sequence of `http_server::Inner::accept`, from the public functions.
async fn admit(io: MemIo, header: Option<http::HeaderValue>, access: Arc<dyn DynAccessControl>, clients: Clients) -> Result<(), String> {
    let mut io = io;
    let auth = handshake::serverside(&mut io, header).await.map_err(|e| format!("serverside: {e:#}"))?;
    let request = ClientRequest::new(auth.client_key, ProtocolVersion::V2, request_parts());
    let guard = auth.authorize_with(&request, &access, &mut io).await.map_err(|e| format!("authorize: {e:#}"))?;
    let stream = RelayedStream::new(io, KeyCache::new(0));
    let mut cfg = Config::new(guard, stream, ProtocolVersion::V2);
    cfg.write_timeout = Duration::from_secs(2);
    cfg.channel_capacity = 16;
    clients.register(cfg, Arc::new(Metrics::default()));
    Ok(())
}

struct OutcomeA {
    ops: Vec<u8>,
    fault_hit: bool,
    registered: bool,
    events: Vec<Ev>,
    all_gone: bool,
    denied_registered: bool,
    used_key_material: bool,
}

async fn run_case_a(case: &CaseA, seed: u64) -> OutcomeA {
    let policy = Arc::new(Policy::default());
    policy.yield_in_connect.store(case.yielding, std::sync::atomic::Ordering::SeqCst);
    let access: Arc<dyn DynAccessControl> = policy.clone();
    let clients = Clients::default();
    let notify = Arc::new(tokio::sync::Notify::new());
    let secret = rig::key(seed, 300);
    let tls_secret = [7u8; 32];
    if case.deny {
        policy.deny.lock().unwrap().insert(secret.public());
    }
    let (io, conn) = rig::mem_pair(notify.clone(), if case.key_material { Some(tls_secret) } else { None });
    if let Some((k, eof)) = case.fault {
        conn.set_fault(k, if eof { FaultKind::Eof } else { FaultKind::Error });
    }
    let header = case.key_material.then(|| key_material_header(&secret, &tls_secret));
    let task = tokio::spawn(admit(io, header, access.clone(), clients.clone()));
    rig::settle().await;
    // play the client: answer a challenge if one was sent
    let mut used_key_material = case.key_material;
    if let Some((_, f)) = conn.frames().first() {
        if let Some(reply) = challenge_reply(&secret, f) {
            used_key_material = false;
            conn.push(reply);
            rig::settle().await;
        }
    }
    let setup = task.await;
    let registered = matches!(setup, Ok(Ok(())));
    // a bystander to probe the registry with
    let by = rig::register(&clients, &notify, rig::key(seed, 301).public(), ProtocolVersion::V2, 16, Duration::from_secs(30));
    let mut denied_registered = false;
    if registered {
        // a few actor operations, so that faults behind the handshake are reachable
        conn.push(rig::enc_ping([1; 8]));
        rig::settle().await;
        conn.push(rig::enc_ping([2; 8]));
        rig::settle().await;
    } else if case.deny {
        // a denied connection must not be in the registry
        denied_registered = clients.disconnect(secret.public(), None);
    }
    let mut second: Option<rig::Conn> = None;
    if registered && !conn.is_dropped() {
        match case.cause {
            Cause::ClientClose => conn.close(),
            Cause::ClientError => conn.push_err("client reset"),
            Cause::DisconnectConn => {
                if let Some(cid) = policy.admitted_cid(&secret.public()) {
                    clients.disconnect(secret.public(), Some(cid));
                }
            }
            Cause::DisconnectId => {
                clients.disconnect(secret.public(), None);
            }
            Cause::Displaced => {
                // a second, fault-free admission of the same endpoint displaces the first
                let (io2, conn2) = rig::mem_pair(notify.clone(), None);
                let t2 = tokio::spawn(admit(io2, None, access.clone(), clients.clone()));
                rig::settle().await;
                if let Some((_, f)) = conn2.frames().first() {
                    if let Some(reply) = challenge_reply(&secret, f) {
                        conn2.push(reply);
                    }
                }
                rig::settle().await;
                let _ = t2.await;
                conn.close();
                rig::settle().await;
                conn2.close();
                second = Some(conn2);
            }
            Cause::RegistryShutdown => clients.shutdown().await,
            Cause::WriteTimeout => {
                conn.set_stalled(true);
                conn.push(rig::enc_ping([3; 8]));
                tokio::time::sleep(Duration::from_secs(5)).await;
                conn.set_stalled(false);
            }
            Cause::PingTimeout => {
                // never answer the server's keep-alive ping
                tokio::time::sleep(Duration::from_secs(60)).await;
            }
        }
    }
    rig::settle().await;
    rig::settle().await;
    // everything that is left goes away with the registry
    by.conn.close();
    clients.shutdown().await;
    rig::settle().await;
    rig::settle().await;
    let all_gone = conn.is_dropped() && by.conn.is_dropped() && second.map(|c| c.is_dropped()).unwrap_or(true);
    OutcomeA {
        ops: conn.ops(),
        fault_hit: conn.fault_hit(),
        registered,
        events: policy.events(),
        all_gone,
        denied_registered,
        used_key_material,
    }
}

/// Names the faulted operation by its role in the admission exchange.  The handshake
/// writes are "challenge" (challenge mechanism only) and "decision"; each is followed by
/// its flushes; the only handshake read is the client's auth frame; the rest is the actor.
fn op_role(key_material: bool, ops: &[u8], k: usize) -> String {
    let hw: &[&str] = if key_material { &["decision"] } else { &["challenge", "decision"] };
    let (mut writes, mut reads, mut flushes_since_write, mut read_since_write) = (0usize, 0usize, 0usize, false);
    let mut role = String::from("op");
    for op in ops.iter().take(k + 1) {
        role = match op {
            b'w' => {
                writes += 1;
                flushes_since_write = 0;
                read_since_write = false;
                if writes <= hw.len() { format!("write-{}", hw[writes - 1]) } else { "actor-write".into() }
            }
            b'r' => {
                reads += 1;
                read_since_write = true;
                if !key_material && reads == 1 { "read-client-auth".into() } else { "actor-read".into() }
            }
            _ => {
                flushes_since_write += 1;
                if writes >= 1 && writes <= hw.len() && !read_since_write && flushes_since_write <= 2 {
                    format!("flush-{}", hw[writes - 1])
                } else {
                    "actor-flush".into()
                }
            }
        };
    }
    role
}

fn execute_a(case: &CaseA, seed: u64) -> OutcomeA {
    let rt = tokio::runtime::Builder::new_current_thread().enable_time().start_paused(true).build().expect("rt");
    rt.block_on(run_case_a(case, seed))
}

fn judge_a(rep: &Report, case: &CaseA, o: &OutcomeA) {
    rep.eval();
    rep.count("A.cases", 1);
    let mech = if case.key_material { "key-material" } else { "challenge" };
    if o.used_key_material && o.registered {
        rep.count("A.admitted_by_key_material", 1);
    }
    if o.registered {
        rep.count("A.registered", 1);
        rep.count(&format!("A.cause.{:?}", case.cause), 1);
    } else {
        rep.count("A.setup_failed_or_denied", 1);
    }
    let context = match case.fault {
        Some((k, eof)) if o.fault_hit => {
            rep.count("A.fault_points_hit", 1);
            let role = op_role(case.key_material, &o.ops, k as usize);
            rep.count(&format!("A.fault.{role}"), 1);
            format!("{mech}:fault-{}@{role}", if eof { "eof" } else { "error" })
        }
        _ => format!("{mech}:cause-{:?}", case.cause),
    };
    if !o.all_gone {
        rep.inconclusive("A:connections-not-gone-at-quiescence");
        return;
    }
    let v = check_log(&o.events);
    rep.count("A.on_connect_allow", v.admitted);
    rep.count("A.on_connect_deny", v.denied);
    rep.count("A.on_disconnect", v.disconnects);
    let replay = case.to_json();
    for (sig, d) in &v.violations {
        rep.violation(&format!("C07:{sig}:{context}"), format!("{d}; log: {:?}", short_log(&o.events)), replay.clone());
    }
    for cid in &v.missing {
        rep.violation(
            &format!("C07:disconnect-missing:{context}"),
            format!("connection {cid} was admitted, every connection and the registry are gone, no on_disconnect; log: {:?}", short_log(&o.events)),
            replay.clone(),
        );
    }
    if o.denied_registered {
        rep.violation(&format!("C07:denied-connection-registered:{context}"), "a connection the policy denied is in the registry".to_string(), replay.clone());
    }
    if v.admitted > 0 && (o.fault_hit || o.registered) {
        rep.nontrivial(format!("A/{context}/{:?}/{}/{}", case.cause, case.yielding, case.fault.map(|f| f.0 as i64).unwrap_or(-1)).as_bytes());
        if rep.want_sample() && o.fault_hit {
            rep.sample(json!({"case": replay, "ops": String::from_utf8_lossy(&o.ops), "log": short_log(&o.events)}));
        }
    }
}

fn short_log(events: &[Ev]) -> Vec<String> {
    events
        .iter()
        .map(|e| match e {
            Ev::Connect { cid, allowed, .. } => format!("connect({cid})->{}", if *allowed { "allow" } else { "deny" }),
            Ev::Disconnect { cid, .. } => format!("disconnect({cid})"),
        })
        .collect()
}

fn layer_a(rep: &Report, seed: u64) {
    let mut n = 0u64;
    for key_material in [false, true] {
        for deny in [false, true] {
            for yielding in [false, true] {
                // fault-free run: operation count, and every ending cause
                let base = CaseA { key_material, deny, yielding, fault: None, cause: Cause::ClientClose };
                let o0 = execute_a(&base, seed);
                let n_ops = o0.ops.len() as u64;
                rep.count_max("A.ops_in_fault_free_run", n_ops);
                for cause in CAUSES {
                    let c = CaseA { cause, ..base.clone() };
                    let o = execute_a(&c, seed + n);
                    judge_a(rep, &c, &o);
                    n += 1;
                }
                // every fault point x kind; a fault that lets the connection register is
                // combined with every ending cause
                for k in 0..n_ops + 2 {
                    for eof in [false, true] {
                        let c = CaseA { fault: Some((k, eof)), ..base.clone() };
                        let o = execute_a(&c, seed + n);
                        judge_a(rep, &c, &o);
                        n += 1;
                        if o.registered {
                            for cause in CAUSES.iter().skip(1) {
                                let c = CaseA { fault: Some((k, eof)), cause: *cause, ..base.clone() };
                                let o = execute_a(&c, seed + n);
                                judge_a(rep, &c, &o);
                                n += 1;
                            }
                        }
                    }
                }
            }
        }
    }
}

// ---------------------------------------------------------------------------------------
// layer B

#[derive(Clone, Copy, Debug, PartialEq, Eq)]
enum Kind {
    Honest,
    Denied,
    Revoked,
    Displaced,
    StayUntilShutdown,
    AbortAfterUpgrade,
    AbortAfterChallenge,
    AbortAfterAuth,
    AbortAfterConfirm,
    GarbageAuth,
}

const KINDS: [Kind; 10] = [
    Kind::Honest,
    Kind::Denied,
    Kind::Revoked,
    Kind::Displaced,
    Kind::StayUntilShutdown,
    Kind::AbortAfterUpgrade,
    Kind::AbortAfterChallenge,
    Kind::AbortAfterAuth,
    Kind::AbortAfterConfirm,
    Kind::GarbageAuth,
];

async fn honest_connect(url: &RelayUrl, secret: &SecretKey) -> Result<iroh_relay::client::Client, String> {
    let tls = iroh_relay::tls::CaTlsConfig::default().client_config(iroh_relay::tls::default_provider()).map_err(|e| format!("{e:#}"))?;
    iroh_relay::client::ClientBuilder::new(url.clone(), secret.clone(), iroh_dns::dns::DnsResolver::new())
        .tls_client_config(tls)
        .connect()
        .await
        .map_err(|e| format!("{e:#}"))
}

async fn ping(client: &mut iroh_relay::client::Client, data: [u8; 8]) -> bool {
    if client.send(ClientToRelayMsg::Ping(data)).await.is_err() {
        return false;
    }
    let r = tokio::time::timeout(Duration::from_secs(20), async {
        while let Some(Ok(m)) = client.next().await {
            match m {
                RelayToClientMsg::Pong(d) if d == data => return true,
                RelayToClientMsg::Ping(p) => {
                    let _ = client.send(ClientToRelayMsg::Pong(p)).await;
                }
                _ => {}
            }
        }
        false
    })
    .await;
    r.unwrap_or(false)
}

async fn raw_ws(addr: std::net::SocketAddr) -> Result<tokio_websockets::WebSocketStream<tokio::net::TcpStream>, String> {
    let tcp = tokio::net::TcpStream::connect(addr).await.map_err(|e| e.to_string())?;
    let _ = tcp.set_nodelay(true);
    #[allow(deprecated)]
    let _ = tcp.set_linger(Some(Duration::ZERO));
    let (ws, _resp) = tokio_websockets::ClientBuilder::new()
        .uri(&format!("ws://{addr}/relay"))
        .map_err(|e| e.to_string())?
        .add_header(http::header::SEC_WEBSOCKET_PROTOCOL, http::HeaderValue::from_static("iroh-relay-v2"))
        .map_err(|e| e.to_string())?
        .connect_on(tcp)
        .await
        .map_err(|e| e.to_string())?;
    Ok(ws)
}

async fn run_client(kind: Kind, addr: std::net::SocketAddr, clients: Clients, policy: Arc<Policy>, secret: SecretKey, rep: Arc<Report>) {
    let url: RelayUrl = format!("http://{addr}").parse().expect("url");
    let tag = format!("B.client.{kind:?}");
    match kind {
        Kind::Honest | Kind::Denied | Kind::Revoked | Kind::StayUntilShutdown | Kind::Displaced => {
            let mut c = match honest_connect(&url, &secret).await {
                Ok(c) => c,
                Err(_) => {
                    rep.count(&format!("{tag}.connect_refused"), 1);
                    return;
                }
            };
            let ok = ping(&mut c, [9; 8]).await;
            rep.count(&format!("{tag}.{}", if ok { "served" } else { "not_served" }), 1);
            match kind {
                Kind::Revoked => {
                    if let Some(cid) = policy.admitted_cid(&secret.public()) {
                        let found = clients.disconnect(secret.public(), Some(cid));
                        rep.count(if found { "B.revocations_found" } else { "B.revocations_not_found" }, 1);
                    }
                    let _ = tokio::time::timeout(Duration::from_secs(20), async { while let Some(Ok(_)) = c.next().await {} }).await;
                }
                Kind::Displaced => {
                    if let Ok(mut c2) = honest_connect(&url, &secret).await {
                        let _ = ping(&mut c2, [8; 8]).await;
                        drop(c);
                        let _ = ping(&mut c2, [7; 8]).await;
                    }
                }
                Kind::StayUntilShutdown => {
                    // ends when the server goes away
                    let _ = tokio::time::timeout(Duration::from_secs(120), async { while let Some(Ok(_)) = c.next().await {} }).await;
                }
                _ => {}
            }
        }
        _ => {
            let Ok(mut ws) = raw_ws(addr).await else {
                rep.count(&format!("{tag}.upgrade_failed"), 1);
                return;
            };
            rep.count(&format!("{tag}.upgraded"), 1);
            if kind == Kind::AbortAfterUpgrade {
                return;
            }
            let Some(Ok(msg)) = ws.next().await else { return };
            let challenge: Bytes = msg.into_payload().into();
            if kind == Kind::AbortAfterChallenge {
                return;
            }
            let reply = if kind == Kind::GarbageAuth { Some(Bytes::from_static(&[1u8, 2, 3, 4])) } else { challenge_reply(&secret, &challenge) };
            let Some(reply) = reply else { return };
            if ws.send(tokio_websockets::Message::binary(tokio_websockets::Payload::from(reply))).await.is_err() {
                return;
            }
            if kind == Kind::AbortAfterAuth {
                return; // dropped right away: the server's confirmation write races with the reset
            }
            let _ = tokio::time::timeout(Duration::from_secs(20), ws.next()).await;
        }
    }
}

fn main() {
    let a = args();
    let rep = Arc::new(Report::new(
        "C07",
        "layer A: every stream-operation index of the admission exchange (and a few actor operations) failing as error / end-of-stream x Allow/Deny x challenge/key-material x immediate/yielding on_connect, registered connections ended by each of 8 causes; layer B: concurrent honest, denied, revoked, displaced, lingering and aborting raw-websocket clients against a real Server; non-trivial = distinct (mechanism, fault point, cause) case with an admitted connection, or a distinct client mix of a server round",
        &a,
    ));
    if let Some(p) = &a.replay {
        let v: Value = serde_json::from_str(&std::fs::read_to_string(p).unwrap()).unwrap();
        if let Some(c) = CaseA::from_json(&v["replay"]) {
            let o = execute_a(&c, a.seed);
            judge_a(&rep, &c, &o);
        } else {
            layer_b_round(&rep, v["replay"]["seed"].as_u64().unwrap_or(a.seed), v["replay"]["clients"].as_u64().unwrap_or(50) as usize, v["replay"]["round"].as_u64().unwrap_or(0), 8);
        }
        rep.finish();
        return;
    }
    layer_a(&rep, a.seed);
    let rounds = a.pick(30u64, 600);
    for round in 0..rounds {
        layer_b_round(&rep, a.seed, 50, round, a.pick(6, 12));
        // a missing disconnect costs the whole budget of its round: do not let that eat the run
        if rep.counter("B.rounds_incomplete") >= 2 {
            rep.note("layer B stopped early: two rounds ended with admitted connections that never reported a disconnect");
            break;
        }
    }
    rep.set_exhaustive(false);
    rep.set_extra("fault_enumeration", json!({"layer": "A", "what": "every operation index of the fault-free admission run (+2) x {error, eof} x {challenge, key material} x {allow, deny} x {immediate, yielding on_connect}", "complete": true}));
    rep.require("A.fault_points_hit", 40);
    rep.require("A.fault.write-decision", 8);
    rep.require("A.fault.flush-decision", 8);
    rep.require("A.fault.read-client-auth", 4);
    rep.require("A.admitted_by_key_material", 10);
    rep.require("A.on_connect_deny", 10);
    for c in CAUSES {
        rep.require(&format!("A.cause.{c:?}"), 4);
    }
    rep.require("B.on_connect_allow", 50);
    rep.require("B.on_connect_deny", 5);
    rep.require("B.client.AbortAfterAuth.upgraded", 3);
    rep.require("B.revocations_found", 3);
    rep.assumption("layer A chains the public handshake::serverside / authorize_with / Clients::register exactly as http_server::Inner::accept does; the HTTP upgrade in front of it is exercised only in layer B");
    rep.finish();
}

/// One server lifetime with a seeded mix of concurrent clients.
fn layer_b_round(rep: &Arc<Report>, seed: u64, n_clients: usize, round: u64, workers: usize) {
    let rt = tokio::runtime::Builder::new_multi_thread().worker_threads(workers).enable_all().build().expect("rt");
    let rep2 = rep.clone();
    let (events, mix, complete) = rt.block_on(async move {
        let rep = rep2;
        let policy = Arc::new(Policy::default());
        let mut relay = RelayConfig::new((Ipv4Addr::LOCALHOST, 0));
        relay.access = policy.clone();
        let mut config = ServerConfig::default();
        config.relay = Some(relay);
        let server = match Server::spawn(config).await {
            Ok(s) => s,
            Err(e) => {
                rep.note(format!("server spawn failed: {e:#}"));
                return (vec![], String::new(), false);
            }
        };
        let addr = server.http_addr().expect("http addr");
        let clients = server.relay_service().expect("relay").clients().clone();
        let mut rng = Rng::derive(seed, "C07-B", round);
        let mut tasks = Vec::new();
        let mut mix = String::new();
        for i in 0..n_clients {
            let kind = *rng.pick(&KINDS);
            mix.push_str(&format!("{kind:?},"));
            let secret = rig::key(seed ^ (round << 20), 1000 + i as u64);
            if kind == Kind::Denied {
                policy.deny.lock().unwrap().insert(secret.public());
            }
            tasks.push((kind, tokio::spawn(run_client(kind, addr, clients.clone(), policy.clone(), secret, rep.clone()))));
            if rng.chance(1, 4) {
                tokio::time::sleep(Duration::from_micros(rng.range(0, 2000))).await;
            }
        }
        let mut stayers = Vec::new();
        for (kind, t) in tasks {
            if kind == Kind::StayUntilShutdown {
                stayers.push(t);
            } else {
                let _ = tokio::time::timeout(Duration::from_secs(120), t).await;
            }
        }
        // the remaining clients are connected (or still connecting): shut the server down
        tokio::time::sleep(Duration::from_millis(20)).await;
        drop(clients);
        let _ = server.shutdown().await;
        for t in stayers {
            let _ = tokio::time::timeout(Duration::from_secs(30), t).await;
        }
        // every admitted connection must now report its disconnect: wait for the expected
        // terminal events with a generous budget
        let deadline = std::time::Instant::now() + Duration::from_secs(30);
        let complete = loop {
            let n = policy.notify.notified();
            if check_log(&policy.events()).missing.is_empty() {
                break true;
            }
            if std::time::Instant::now() > deadline {
                break false;
            }
            let _ = tokio::time::timeout(Duration::from_millis(100), n).await;
        };
        (policy.events(), mix, complete)
    });
    drop(rt);
    rep.eval();
    rep.count("B.rounds", 1);
    let v = check_log(&events);
    rep.count("B.on_connect_allow", v.admitted);
    rep.count("B.on_connect_deny", v.denied);
    rep.count("B.on_disconnect", v.disconnects);
    let replay = json!({"layer": "B", "seed": seed, "round": round, "clients": n_clients, "mix": mix});
    for (sig, d) in &v.violations {
        rep.violation(&format!("C07:{sig}:real-server"), d.clone(), replay.clone());
    }
    if !complete {
        rep.count("B.rounds_incomplete", 1);
        rep.inconclusive("B:disconnect-not-seen-within-budget-after-server-shutdown");
        rep.note(format!("round {round}: admitted connections without on_disconnect after 30 s: {:?}", v.missing));
    }
    if v.admitted > 0 {
        rep.nontrivial(format!("B/{mix}").as_bytes());
    }
}
