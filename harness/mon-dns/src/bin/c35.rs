//! C35 — dual-stack host resolution yields all addresses, errs only if both fail.
//!
//! Runs the real public `DnsResolver::resolve_host_all` on a paused-clock runtime against a
//! scripted custom resolver (per family: latency, then k addresses / an error / never within
//! the timeout).  The consumer records every stream item with its virtual instant.
//!
//! Oracle (from the statement):
//!  * the `Ok` items are exactly the multiset of addresses the two lookups returned;
//!  * (eager consumer) addresses of the lookup that completes first are yielded strictly
//!    before the slower lookup completes, never before their own lookup completes;
//!  * a combined (both-families) error only if both lookups failed; a no-response error only
//!    if nothing was yielded and not both lookups failed; an error item is the last item;
//!  * an IPv4 / IPv6 literal host is yielded directly: it is the single item and no lookup is
//!    made;
//!  * no panic.

use std::{
    net::{IpAddr, Ipv4Addr, Ipv6Addr},
    sync::{Arc, Mutex},
    time::Duration,
};

use common::{Report, Rng, args, catch};
use iroh_dns::dns::{BoxIter, DnsError, DnsResolver, Resolver, TxtRecordData};
use n0_error::{anyerr, e};
use n0_future::{StreamExt, boxed::BoxFuture};
use serde::{Deserialize, Serialize};
use serde_json::json;
use tokio::time::Instant;
use url::Url;

#[derive(Clone, Copy, Debug, Serialize, Deserialize, PartialEq, Eq)]
struct Fam {
    /// latency in virtual ms
    lat: u64,
    /// 0..=3: that many addresses; 4: error; 5: the same address twice
    out: u8,
}

#[derive(Clone, Debug, Serialize, Deserialize)]
struct Case {
    url: String,
    timeout_ms: u64,
    v4: Fam,
    v6: Fam,
    /// consumer pause before asking for the next item, virtual ms (0 = eager)
    consumer_pause_ms: u64,
}

#[derive(Debug, Default)]
struct Log {
    t0: Option<Instant>,
    /// (family, start ns)
    calls: Vec<(u8, u128)>,
    /// (family, ns) the scripted answer was actually handed to the caller (the lookup future
    /// ran to completion; it is dropped unfinished when the crate's timeout wins)
    delivered: Vec<(u8, u128)>,
}

#[derive(Debug, Clone)]
struct Scripted {
    log: Arc<Mutex<Log>>,
    v4: Fam,
    v6: Fam,
}

fn addrs4(f: Fam) -> Vec<Ipv4Addr> {
    match f.out {
        0..=3 => (0..f.out).map(|i| Ipv4Addr::new(10, 0, 0, i + 1)).collect(),
        5 => vec![Ipv4Addr::new(10, 0, 0, 9); 2],
        _ => vec![],
    }
}
fn addrs6(f: Fam) -> Vec<Ipv6Addr> {
    match f.out {
        0..=3 => (0..f.out).map(|i| Ipv6Addr::new(0xfd00, 0, 0, 0, 0, 0, 0, i as u16 + 1)).collect(),
        5 => vec![Ipv6Addr::new(0xfd00, 0, 0, 0, 0, 0, 0, 9); 2],
        _ => vec![],
    }
}

impl Scripted {
    fn note(&self, fam: u8) {
        let mut l = self.log.lock().unwrap();
        let now = Instant::now();
        let t0 = l.t0.unwrap_or(now);
        l.calls.push((fam, now.duration_since(t0).as_nanos()));
    }
    fn delivered(log: &Arc<Mutex<Log>>, fam: u8) {
        let mut l = log.lock().unwrap();
        let now = Instant::now();
        let t0 = l.t0.unwrap_or(now);
        l.delivered.push((fam, now.duration_since(t0).as_nanos()));
    }
}

impl Resolver for Scripted {
    fn lookup_ipv4(&self, _host: String) -> BoxFuture<Result<BoxIter<Ipv4Addr>, DnsError>> {
        self.note(4);
        let f = self.v4;
        let log = self.log.clone();
        Box::pin(async move {
            if f.lat > 0 {
                tokio::time::sleep(Duration::from_millis(f.lat)).await;
            }
            Scripted::delivered(&log, 4);
            if f.out == 4 { Err(e!(DnsError::Resolve, anyerr!("scripted v4 failure"))) } else { Ok(Box::new(addrs4(f).into_iter()) as BoxIter<Ipv4Addr>) }
        })
    }
    fn lookup_ipv6(&self, _host: String) -> BoxFuture<Result<BoxIter<Ipv6Addr>, DnsError>> {
        self.note(6);
        let f = self.v6;
        let log = self.log.clone();
        Box::pin(async move {
            if f.lat > 0 {
                tokio::time::sleep(Duration::from_millis(f.lat)).await;
            }
            Scripted::delivered(&log, 6);
            if f.out == 4 { Err(e!(DnsError::Resolve, anyerr!("scripted v6 failure"))) } else { Ok(Box::new(addrs6(f).into_iter()) as BoxIter<Ipv6Addr>) }
        })
    }
    fn lookup_txt(&self, _host: String) -> BoxFuture<Result<BoxIter<TxtRecordData>, DnsError>> {
        self.note(0);
        Box::pin(async move { Err(e!(DnsError::NoResponse)) })
    }
    fn clear_cache(&self) {}
    fn reset(&self) -> Box<dyn Resolver> {
        Box::new(self.clone())
    }
}

#[derive(Debug, Clone, PartialEq)]
enum Item {
    Ok(IpAddr),
    ErrBoth,
    ErrNoResponse,
    ErrMissingHost,
    ErrOther(String),
}

struct Observed {
    items: Vec<(Item, u128)>,
    calls: Vec<(u8, u128)>,
    delivered: Vec<(u8, u128)>,
    ended: bool,
}

const MS: u128 = 1_000_000;

fn execute(c: &Case) -> Option<Observed> {
    let url = Url::parse(&c.url).ok()?;
    let rt = tokio::runtime::Builder::new_current_thread().enable_time().start_paused(true).build().expect("runtime");
    let log = Arc::new(Mutex::new(Log::default()));
    let resolver = DnsResolver::custom(Scripted { log: log.clone(), v4: c.v4, v6: c.v6 });
    let timeout = Duration::from_millis(c.timeout_ms);
    let pause = c.consumer_pause_ms;
    let budget = Duration::from_millis(4 * (c.timeout_ms + c.v4.lat + c.v6.lat) + 20 * pause + 10_000);
    let (items, ended) = rt.block_on(async {
        let t0 = Instant::now();
        log.lock().unwrap().t0 = Some(t0);
        let mut items = Vec::new();
        let mut ended = false;
        let consume = async {
            let stream = resolver.resolve_host_all(&url, timeout);
            tokio::pin!(stream);
            // never more than 32 items: a stream that does not end is cut off (judged below)
            while items.len() < 32 {
                match stream.next().await {
                    None => {
                        ended = true;
                        break;
                    }
                    Some(r) => {
                        let it = match r {
                            Ok(ip) => Item::Ok(ip),
                            Err(DnsError::ResolveBoth { .. }) => Item::ErrBoth,
                            Err(DnsError::NoResponse { .. }) => Item::ErrNoResponse,
                            Err(DnsError::MissingHost { .. }) => Item::ErrMissingHost,
                            Err(other) => Item::ErrOther(other.to_string()),
                        };
                        items.push((it, t0.elapsed().as_nanos()));
                        if pause > 0 {
                            tokio::time::sleep(Duration::from_millis(pause)).await;
                        }
                    }
                }
            }
        };
        let _ = tokio::time::timeout(budget, consume).await;
        (items, ended)
    });
    let calls = log.lock().unwrap().calls.clone();
    let delivered = log.lock().unwrap().delivered.clone();
    Some(Observed { items, calls, delivered, ended })
}

fn judge(rep: &Report, c: &Case, o: &Observed) -> Option<(String, String)> {
    let url = Url::parse(&c.url).unwrap();
    let show = || format!("items {:?} calls {:?} delivered {:?} ended {}", o.items, o.calls, o.delivered, o.ended);
    if !o.ended {
        return Some(("C35:stream-did-not-end".into(), show()));
    }
    // an error item must be the last item
    if let Some(pos) = o.items.iter().position(|(i, _)| !matches!(i, Item::Ok(_))) {
        if pos + 1 != o.items.len() {
            return Some(("C35:item-after-error".into(), show()));
        }
    }
    let oks: Vec<(IpAddr, u128)> = o.items.iter().filter_map(|(i, t)| if let Item::Ok(ip) = i { Some((*ip, *t)) } else { None }).collect();
    let err = o.items.iter().map(|(i, _)| i).find(|i| !matches!(i, Item::Ok(_)));
    match url.host() {
        None => {
            rep.count("host.none", 1);
            // outside the statement; only "no panic" and termination are observed
            return None;
        }
        Some(url::Host::Ipv4(ip)) => {
            rep.count("host.ipv4_literal", 1);
            if o.items.len() != 1 || o.items[0].0 != Item::Ok(IpAddr::V4(ip)) {
                return Some(("C35:literal-host-not-yielded-directly:ipv4".into(), show()));
            }
            if !o.calls.is_empty() {
                return Some(("C35:literal-host-looked-up:ipv4".into(), show()));
            }
            return None;
        }
        Some(url::Host::Ipv6(ip)) => {
            rep.count("host.ipv6_literal", 1);
            if o.items.len() != 1 || o.items[0].0 != Item::Ok(IpAddr::V6(ip)) {
                return Some(("C35:literal-host-not-yielded-directly:ipv6".into(), show()));
            }
            if !o.calls.is_empty() {
                return Some(("C35:literal-host-looked-up:ipv6".into(), show()));
            }
            return None;
        }
        Some(url::Host::Domain(_)) => rep.count("host.domain", 1),
    }
    // ---- domain: what the two lookups return, from the script and the observed call instants
    let start = |fam: u8| o.calls.iter().find(|x| x.0 == fam).map(|x| x.1);
    // A lookup "returned" what the script says iff the scripted answer was actually delivered
    // (the crate polls the lookup before its own timeout, so a delivered answer is the result
    // of the lookup); otherwise the lookup failed (timeout) at start + timeout for an eager
    // consumer.
    let fam_result = |fam: u8, f: Fam, st: Option<u128>| -> (bool, Option<u128>) {
        // (failed, completion instant)
        match (st, o.delivered.iter().find(|x| x.0 == fam)) {
            (None, _) => (true, None), // never called: nothing can have been returned
            (Some(_), Some(d)) => (f.out == 4, Some(d.1)),
            (Some(s), None) => (true, Some(s + c.timeout_ms as u128 * MS)),
        }
    };
    let (fail4, done4) = fam_result(4, c.v4, start(4));
    let (fail6, done6) = fam_result(6, c.v6, start(6));
    if o.delivered.len() < o.calls.len() {
        rep.count("lookups.answer_not_delivered_timeout_won", (o.calls.len() - o.delivered.len()) as u64);
    }
    if (c.v4.lat > c.timeout_ms && o.delivered.iter().any(|x| x.0 == 4)) || (c.v6.lat > c.timeout_ms && o.delivered.iter().any(|x| x.0 == 6)) {
        // lazy consumer: the stream was not polled between the timeout and the answer
        rep.count("lookups.late_answer_accepted_after_timeout_instant", 1);
    }
    let mut want: Vec<IpAddr> = Vec::new();
    if !fail4 {
        want.extend(addrs4(c.v4).into_iter().map(IpAddr::V4));
    }
    if !fail6 {
        want.extend(addrs6(c.v6).into_iter().map(IpAddr::V6));
    }
    rep.count(
        match (fail4, fail6) {
            (true, true) => "lookups.both_failed",
            (false, false) => "lookups.both_ok",
            _ => "lookups.one_failed",
        },
        1,
    );
    let mut got: Vec<IpAddr> = oks.iter().map(|x| x.0).collect();
    let mut w = want.clone();
    got.sort();
    w.sort();
    if got != w {
        let sig = if got.len() < w.len() {
            "C35:address-not-yielded"
        } else if got.len() > w.len() {
            "C35:address-yielded-twice-or-unknown"
        } else {
            "C35:addresses-differ"
        };
        return Some((sig.into(), format!("lookups returned {want:?}; {}", show())));
    }
    rep.count("addresses.yielded", got.len() as u64);
    // ---- timing (eager consumer only)
    if c.consumer_pause_ms == 0 {
        if let (Some(d4), Some(d6)) = (done4, done6) {
            for (ip, t) in &oks {
                let (own, other) = if ip.is_ipv4() { (d4, d6) } else { (d6, d4) };
                if *t < own {
                    return Some(("C35:address-before-its-lookup-completed".into(), format!("{ip} at {t} ns, its lookup completes at {own} ns; {}", show())));
                }
                if own < other {
                    rep.count("timing.faster_family_items", 1);
                    if *t >= other {
                        return Some((
                            "C35:faster-family-held-back".into(),
                            format!("{ip} (lookup done at {own} ns) yielded at {t} ns, not before the slower lookup completed at {other} ns; {}", show()),
                        ));
                    }
                }
            }
        }
    }
    // ---- ending
    match err {
        Some(Item::ErrBoth) => {
            rep.count("end.combined_error", 1);
            if !(fail4 && fail6) {
                return Some(("C35:combined-error-without-both-failing".into(), show()));
            }
        }
        Some(Item::ErrNoResponse) => {
            rep.count("end.no_response_error", 1);
            if !oks.is_empty() {
                return Some(("C35:no-response-error-after-addresses".into(), show()));
            }
            if fail4 && fail6 {
                return Some(("C35:no-response-error-although-both-failed".into(), show()));
            }
        }
        Some(other) => {
            return Some(("C35:unexpected-error-kind".into(), format!("{other:?}; {}", show())));
        }
        None => {
            rep.count("end.plain", 1);
            if fail4 && fail6 {
                rep.count("end.both_failed_without_error_item", 1);
            }
            if oks.is_empty() && !(fail4 && fail6) {
                rep.count("end.nothing_yielded_without_error_item", 1);
            }
        }
    }
    None
}

fn run_case(rep: &Report, c: &Case) {
    rep.eval();
    let replay = serde_json::to_value(c).unwrap();
    let o = match catch(|| execute(c)) {
        Ok(Some(o)) => o,
        Ok(None) => {
            rep.inconclusive("url-not-parsable");
            return;
        }
        Err(p) => {
            let loc = p.rsplit(" @ ").next().unwrap_or("");
            rep.violation(&format!("C35:panic@{}", common::short_loc(loc)), p, replay);
            return;
        }
    };
    rep.count(if c.consumer_pause_ms == 0 { "consumer.eager" } else { "consumer.lazy" }, 1);
    if let Some((sig, detail)) = judge(rep, c, &o) {
        rep.violation(&sig, detail, replay);
        return;
    }
    if o.calls.len() == 2 {
        rep.nontrivial(serde_json::to_string(c).unwrap().as_bytes());
        if rep.want_sample() && o.items.len() >= 3 {
            rep.sample(json!({"case": c, "items": o.items.iter().map(|(i, t)| json!([format!("{i:?}"), *t as u64])).collect::<Vec<_>>()}));
        }
    }
}

const URLS: [&str; 12] = [
    "https://relay.example.com",
    "https://relay.example.com./path",
    "http://localhost:3340",
    "https://xn--bcher-kva.example/",
    "https://127.0.0.1:443",
    "http://10.1.2.3/",
    "https://0.0.0.0",
    "https://[::1]:8443/",
    "https://[2001:db8::7]/x",
    "https://[::ffff:1.2.3.4]",
    "data:text/plain,hello",
    "mailto:someone@example.com",
];

fn main() {
    let a = args();
    let rep = Report::new(
        "C35",
        "exhaustive small domain (latencies {0,1,5,9,11,30} ms x outcomes {0..3 addresses, error, duplicate} per family, timeout 10 ms, eager and lazy consumer, domain host) plus every host kind (domain, IPv4/IPv6 literal, host-less) and seeded random scripts; non-trivial = distinct case in which both family lookups were actually made",
        &a,
    );
    if let Some(p) = &a.replay {
        let v: serde_json::Value = serde_json::from_str(&std::fs::read_to_string(p).unwrap()).unwrap();
        let c: Case = serde_json::from_value(v["replay"].clone()).expect("replay case");
        run_case(&rep, &c);
        rep.finish();
        return;
    }
    // ---- exhaustive part
    let lats = [0u64, 1, 5, 9, 11, 30];
    let outs = [0u8, 1, 2, 3, 4, 5];
    let mut n_ex = 0u64;
    for &l4 in &lats {
        for &o4 in &outs {
            for &l6 in &lats {
                for &o6 in &outs {
                    for pause in [0u64, 3] {
                        run_case(&rep, &Case { url: "https://relay.example.com".into(), timeout_ms: 10, v4: Fam { lat: l4, out: o4 }, v6: Fam { lat: l6, out: o6 }, consumer_pause_ms: pause });
                        n_ex += 1;
                    }
                }
            }
        }
    }
    for u in URLS {
        for (l4, l6) in [(0u64, 0u64), (1, 5), (5, 1), (20, 20)] {
            run_case(&rep, &Case { url: u.into(), timeout_ms: 10, v4: Fam { lat: l4, out: 2 }, v6: Fam { lat: l6, out: 4 }, consumer_pause_ms: 0 });
        }
    }
    rep.set_exhaustive(false);
    rep.set_extra("exhaustive_part", json!({"latencies_ms": lats, "outcomes": outs, "timeout_ms": 10, "consumer_pause_ms": [0, 3], "cases": n_ex, "complete": true}));
    // ---- random part
    let threads = a.extra_u64("threads", a.pick(4u64, 16));
    let per_thread = a.extra_u64("cases", a.pick(15_000u64, 2_000_000));
    std::thread::scope(|s| {
        for shard in 0..threads {
            let rep = &rep;
            let seed = a.seed;
            s.spawn(move || {
                let mut rng = Rng::derive(seed, "C35", shard);
                for _ in 0..per_thread {
                    let timeout_ms = *rng.pick(&[1u64, 10, 100, 1000, 3000]);
                    let fam = |rng: &mut Rng| {
                        let lat = match rng.below(7) {
                            0 => 0,
                            1 => rng.below(5),
                            2 => timeout_ms.saturating_sub(1),
                            3 => timeout_ms + 1,
                            4 => 3 * timeout_ms,
                            _ => rng.below(2 * timeout_ms + 1),
                        };
                        // answer exactly at the timeout: tie left open by the statement
                        let lat = if lat == timeout_ms { lat + 1 } else { lat };
                        Fam { lat, out: *rng.pick(&[0u8, 1, 1, 2, 3, 4, 4, 5]) }
                    };
                    let c = Case {
                        url: if rng.below(5) == 0 { rng.pick(&URLS[..]).to_string() } else { "https://relay.example.com./".to_string() },
                        timeout_ms,
                        v4: fam(&mut rng),
                        v6: fam(&mut rng),
                        consumer_pause_ms: *rng.pick(&[0u64, 0, 0, 1, 7, 2000]),
                    };
                    run_case(rep, &c);
                }
            });
        }
    });
    for (k, min) in [
        ("host.domain", 2000),
        ("host.ipv4_literal", 20),
        ("host.ipv6_literal", 20),
        ("host.none", 8),
        ("lookups.both_failed", 200),
        ("lookups.one_failed", 200),
        ("lookups.both_ok", 200),
        ("lookups.answer_not_delivered_timeout_won", 200),
        ("timing.faster_family_items", 500),
        ("end.combined_error", 200),
        ("end.no_response_error", 50),
        ("end.plain", 500),
        ("consumer.lazy", 500),
        ("addresses.yielded", 2000),
    ] {
        rep.require(k, min);
    }
    rep.finish();
}
