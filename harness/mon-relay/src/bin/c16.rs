//! C16 — splitting a relay datagram batch partitions it exactly.
//!
//! Oracle: the sequence of datagrams of the original batch (split by its segment size)
//! equals the concatenation of the datagram sequences of the batches taken from it;
//! every taken batch holds at most `n` datagrams, carries a segment size iff it holds
//! more than one datagram, keeps the ECN marking; the loop terminates within
//! ceil(len/ss)+1 takes.

use std::num::NonZeroU16;

use bytes::Bytes;
use common::{Report, Rng, args, catch};
use iroh_relay::protos::relay::Datagrams;
use noq_proto::EcnCodepoint;
use serde_json::json;

fn split(contents: &[u8], ss: Option<usize>) -> Vec<Vec<u8>> {
    if contents.is_empty() {
        return vec![];
    }
    match ss {
        None => vec![contents.to_vec()],
        Some(ss) => contents.chunks(ss).map(|c| c.to_vec()).collect(),
    }
}

fn ecn_of(i: u64) -> Option<EcnCodepoint> {
    match i % 4 {
        0 => None,
        1 => Some(EcnCodepoint::Ect0),
        2 => Some(EcnCodepoint::Ect1),
        _ => Some(EcnCodepoint::Ce),
    }
}

/// Runs one case. `ns` gives the `n` used for successive takes (cycled).
fn run_case(rep: &Report, len: usize, ss: Option<u16>, ns: &[usize], ecn_i: u64, fill: u8) {
    rep.eval();
    let contents: Vec<u8> = (0..len).map(|i| (i as u8).wrapping_mul(31).wrapping_add(fill)).collect();
    let ecn = ecn_of(ecn_i);
    let replay = json!({"len": len, "segment_size": ss, "ns": ns, "ecn": ecn_i, "fill": fill});
    let expected = split(&contents, ss.map(|s| s as usize));
    let mut d = Datagrams {
        ecn,
        segment_size: ss.and_then(NonZeroU16::new),
        contents: Bytes::from(contents.clone()),
    };
    let max_takes = match ss {
        Some(s) => len.div_ceil(s as usize) + 1,
        None => 2,
    };
    let mut got: Vec<Vec<u8>> = Vec::new();
    let mut takes = 0usize;
    let mut multi = false;
    while !d.contents.is_empty() {
        if takes > max_takes {
            rep.violation("C16:no-termination", format!("more than {max_takes} takes"), replay.clone());
            return;
        }
        let n = ns[takes % ns.len()];
        let before = d.contents.len();
        let t = match catch(|| d.take_segments(n)) {
            Ok(t) => t,
            Err(p) => {
                rep.violation(&format!("C16:panic@{}", common::short_loc(&p)), p, replay.clone());
                return;
            }
        };
        takes += 1;
        if t.ecn != ecn {
            rep.violation("C16:ecn-changed", format!("take {takes}: ecn {:?} != {:?}", t.ecn, ecn), replay.clone());
            return;
        }
        let parts = split(&t.contents, t.segment_size.map(|s| u16::from(s) as usize));
        if parts.len() > n {
            rep.violation("C16:more-than-n-segments", format!("take {takes}: {} datagrams > n={n}", parts.len()), replay.clone());
            return;
        }
        if t.segment_size.is_some() && parts.len() <= 1 {
            rep.violation("C16:segment-size-on-single", format!("take {takes}: segment size {:?} with {} datagram(s)", t.segment_size, parts.len()), replay.clone());
            return;
        }
        if parts.len() > 1 {
            multi = true;
        }
        if d.contents.len() == before && !t.contents.is_empty() {
            rep.violation("C16:duplicated", "taken bytes not removed from the batch", replay.clone());
            return;
        }
        if d.contents.len() == before {
            rep.violation("C16:no-progress", format!("take {takes} with n={n} consumed nothing"), replay.clone());
            return;
        }
        got.extend(parts);
    }
    if got != expected {
        let first = got.iter().zip(expected.iter()).position(|(a, b)| a != b).unwrap_or(got.len().min(expected.len()));
        rep.violation(
            "C16:datagram-sequence-differs",
            format!("expected {} datagrams, got {}; first difference at index {first} (lens {:?} vs {:?})",
                expected.len(), got.len(), expected.get(first).map(|v| v.len()), got.get(first).map(|v| v.len())),
            replay.clone(),
        );
        return;
    }
    // non-trivial: the batch really was split over more than one take or held >1 datagram
    if takes > 1 || multi {
        rep.nontrivial(format!("{len}/{ss:?}/{ns:?}").as_bytes());
    }
    rep.count("takes", takes as u64);
    if rep.want_sample() && takes > 1 && multi {
        rep.sample(json!({"len": len, "segment_size": ss, "ns": ns, "takes": takes, "datagrams": expected.len()}));
    }
}

fn main() {
    let a = args();
    let rep = Report::new(
        "C16",
        "exhaustive small domain (len 0..=48 x segment_size None|1..=50 x n 1..=6) plus seeded random (len<=65535, ss<=65535, n<=65536, n varying between takes); non-trivial = distinct (len, ss, ns) whose split needed >1 take or produced a multi-datagram batch",
        &a,
    );
    if let Some(p) = &a.replay {
        let v: serde_json::Value = serde_json::from_str(&std::fs::read_to_string(p).unwrap()).unwrap();
        let r = &v["replay"];
        let ns: Vec<usize> = r["ns"].as_array().unwrap().iter().map(|x| x.as_u64().unwrap() as usize).collect();
        run_case(&rep, r["len"].as_u64().unwrap() as usize, r["segment_size"].as_u64().map(|x| x as u16), &ns, r["ecn"].as_u64().unwrap_or(0), r["fill"].as_u64().unwrap_or(0) as u8);
        rep.finish();
        return;
    }
    let miri = a.extra.contains_key("miri");
    let (maxlen, maxss, maxn) = if miri { (9, 6, 3) } else { (48, 50, 6) };
    // exhaustive part
    for len in 0..=maxlen {
        for ss in 0..=maxss {
            let ss = if ss == 0 { None } else { Some(ss as u16) };
            for n in 1..=maxn {
                run_case(&rep, len, ss, &[n], (len + n) as u64, 7);
            }
        }
    }
    rep.set_exhaustive(false);
    rep.set_extra("exhaustive_part", json!({"len": [0, maxlen], "segment_size": ["None", 1, maxss], "n": [1, maxn], "complete": true}));
    // random part
    let mut rng = Rng::derive(a.seed, "C16", 0);
    let n_random = if miri { 20 } else { a.pick(20_000, 400_000) };
    for _ in 0..n_random {
        let len = match rng.below(4) {
            0 => rng.below(64) as usize,
            1 => rng.below(2000) as usize,
            _ => rng.below(65536) as usize,
        };
        let len = if miri { len % 200 } else { len };
        let ss = match rng.below(6) {
            0 => None,
            1 => Some(rng.range(1, 8) as u16),
            2 => Some(rng.range(1, 1500) as u16),
            3 if len > 0 => Some((len as u64).min(65535).max(1) as u16), // exactly the length
            4 if len > 1 => {
                // a divisor-ish or neighbour of one
                let k = rng.range(1, 8) as usize;
                Some(((len / k).clamp(1, 65535)) as u16)
            }
            _ => Some(rng.range(1, 65535) as u16),
        };
        let ns: Vec<usize> = (0..rng.range(1, 3))
            .map(|_| match rng.below(4) {
                0 => 1,
                1 => rng.range(1, 8) as usize,
                2 => rng.range(1, 64) as usize,
                _ => rng.range(1, 65536) as usize,
            })
            .collect();
        run_case(&rep, len, ss, &ns, rng.below(4), rng.below(256) as u8);
    }
    rep.finish();
}
