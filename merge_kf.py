#!/usr/bin/env python3
"""Resolves a merge conflict in known_findings.json by taking the union of both sides' entries."""
import json, subprocess
def stage(n):
    return json.loads(subprocess.run(["git", "show", ":%d:known_findings.json" % n], capture_output=True, text=True, cwd="/verif").stdout)
ours, theirs = stage(2), stage(3)
seen = set(); out = []
for f in ours["findings"] + theirs["findings"]:
    k = (f["property"], f["signature"], f["status"])
    if k not in seen:
        seen.add(k); out.append(f)
ours["findings"] = sorted(out, key=lambda f: (f["property"], f["signature"]))
json.dump(ours, open("/verif/known_findings.json", "w"), indent=1)
print(len(out), "findings")
