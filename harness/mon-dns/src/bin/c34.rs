//! C34 — staggered DNS lookups never panic and return the first success.
//!
//! Runs the real public `DnsResolver::lookup_{ipv4,ipv6,ipv4_ipv6}_staggered` and
//! `lookup_endpoint_by_{id,domain_name}_staggered` on a paused-clock (virtual time)
//! current-thread runtime against a scripted `DnsResolver::custom` resolver.  Every resolver
//! call logs its virtual start instant and then follows a per-attempt script
//! (latency, succeed / fail / garbage).
//!
//! Oracle (from the statement):
//!  * no panic;
//!  * the observed attempt starts can be matched one-to-one to `{0} ∪ delays` such that each
//!    start lies in `[0.8 d, 1.2 d]` (the 0 delay: exactly at the call instant); a delay
//!    whose window closed strictly before the call returned must have an attempt;
//!  * `Ok(v)`: `v` is the value of a successful attempt whose completion instant
//!    (start + latency, from the script) is minimal among all successful attempts, and the
//!    call returns at that instant;
//!  * `Err(e)`: all `n + 1` attempts were started, none succeeded, and `e` carries exactly
//!    one error per attempt (identified by per-attempt error ids / timeouts);
//!  * still pending at the virtual horizon: only allowed while no success has completed and
//!    some delay's window is still open (huge delays).
//!
//! The jitter itself comes from `rand::random` inside the crate and is not seeded; the oracle
//! accepts every jitter inside the window, so verdicts do not depend on it.

use std::{
    net::{IpAddr, Ipv4Addr, Ipv6Addr},
    sync::{Arc, Mutex},
    time::Duration,
};

use common::{Report, Rng, args, catch};
use iroh_base::{EndpointId, RelayUrl, SecretKey};
use iroh_dns::{
    ParseError,
    dns::{BoxIter, DnsError, DnsResolver, LookupError, Resolver, TxtRecordData},
    endpoint_info::{EndpointInfo, UserData},
};
use n0_error::{anyerr, e};
use n0_future::boxed::BoxFuture;
use serde::{Deserialize, Serialize};
use serde_json::json;
use tokio::time::Instant;

const K_V4: u8 = 0;
const K_V6: u8 = 1;
const K_BOTH: u8 = 2;
const K_BY_ID: u8 = 3;
#[allow(dead_code)]
const K_BY_NAME: u8 = 4;
const KIND_NAMES: [&str; 5] = ["ipv4", "ipv6", "ipv4_ipv6", "by_id", "by_domain_name"];

/// delays above this are never waited for (virtual horizon), only checked for "not early"
const HUGE: u64 = 1 << 34;
/// fixed per-attempt timeout of the endpoint lookups (`iroh_dns::dns::DNS_TIMEOUT`)
const TXT_TIMEOUT_MS: u64 = 3000;

#[derive(Clone, Copy, Debug, Serialize, Deserialize, PartialEq, Eq)]
struct Step {
    /// latency of the scripted answer in virtual ms
    lat: u64,
    /// 0 = error, 1 = success, 2 = IP kinds: success with no addresses; TXT kinds: unparsable record
    out: u8,
}

#[derive(Clone, Debug, Serialize, Deserialize)]
struct Case {
    kind: u8,
    delays: Vec<u64>,
    timeout_ms: u64,
    /// script for the primary lookups (v4 for ipv4/ipv4_ipv6, v6 for ipv6, txt), by call order
    s_a: Vec<Step>,
    /// script for the v6 lookups of ipv4_ipv6, by call order
    s_b: Vec<Step>,
    /// by_domain_name only: pass the name with the `_iroh.` prefix already present
    prefixed: bool,
}

#[derive(Default, Debug)]
struct Log {
    t0: Option<Instant>,
    /// (family 4 | 6 | 0 = txt, start in ns since t0, call index within the family)
    calls: Vec<(u8, u128, usize)>,
    n4: usize,
    n6: usize,
    nt: usize,
}

#[derive(Debug, Clone)]
struct Scripted {
    log: Arc<Mutex<Log>>,
    s4: Arc<Vec<Step>>,
    s6: Arc<Vec<Step>>,
    st: Arc<Vec<Step>>,
    id: EndpointId,
}

const EXTRA: Step = Step { lat: 0, out: 0 };

impl Scripted {
    fn begin(&self, fam: u8) -> (usize, Step) {
        let mut l = self.log.lock().unwrap();
        let now = Instant::now();
        let t0 = l.t0.unwrap_or(now);
        let idx = match fam {
            4 => {
                l.n4 += 1;
                l.n4 - 1
            }
            6 => {
                l.n6 += 1;
                l.n6 - 1
            }
            _ => {
                l.nt += 1;
                l.nt - 1
            }
        };
        l.calls.push((fam, now.duration_since(t0).as_nanos(), idx));
        let s = match fam {
            4 => &self.s4,
            6 => &self.s6,
            _ => &self.st,
        };
        (idx, s.get(idx).copied().unwrap_or(EXTRA))
    }
}

fn v4_of(i: usize) -> Ipv4Addr {
    Ipv4Addr::new(10, 0, (i >> 8) as u8, i as u8)
}
fn v6_of(i: usize) -> Ipv6Addr {
    Ipv6Addr::new(0xfd00, 0, 0, 0, 0, 0, 0, i as u16)
}
fn ip_tok(ip: IpAddr) -> String {
    match ip {
        IpAddr::V4(a) => {
            let o = a.octets();
            format!("a{}/4", ((o[2] as usize) << 8) | o[3] as usize)
        }
        IpAddr::V6(a) => format!("a{}/6", a.segments()[7]),
    }
}

impl Resolver for Scripted {
    fn lookup_ipv4(&self, _host: String) -> BoxFuture<Result<BoxIter<Ipv4Addr>, DnsError>> {
        let (idx, step) = self.begin(4);
        Box::pin(async move {
            if step.lat > 0 {
                tokio::time::sleep(Duration::from_millis(step.lat)).await;
            }
            match step.out {
                0 => Err(e!(DnsError::Resolve, anyerr!("x{idx}/4"))),
                1 => Ok(Box::new(vec![v4_of(idx)].into_iter()) as BoxIter<Ipv4Addr>),
                _ => Ok(Box::new(std::iter::empty()) as BoxIter<Ipv4Addr>),
            }
        })
    }

    fn lookup_ipv6(&self, _host: String) -> BoxFuture<Result<BoxIter<Ipv6Addr>, DnsError>> {
        let (idx, step) = self.begin(6);
        Box::pin(async move {
            if step.lat > 0 {
                tokio::time::sleep(Duration::from_millis(step.lat)).await;
            }
            match step.out {
                0 => Err(e!(DnsError::Resolve, anyerr!("x{idx}/6"))),
                1 => Ok(Box::new(vec![v6_of(idx)].into_iter()) as BoxIter<Ipv6Addr>),
                _ => Ok(Box::new(std::iter::empty()) as BoxIter<Ipv6Addr>),
            }
        })
    }

    fn lookup_txt(&self, _host: String) -> BoxFuture<Result<BoxIter<TxtRecordData>, DnsError>> {
        let (idx, step) = self.begin(0);
        let id = self.id;
        Box::pin(async move {
            if step.lat > 0 {
                tokio::time::sleep(Duration::from_millis(step.lat)).await;
            }
            match step.out {
                0 => Err(e!(DnsError::Resolve, anyerr!("x{idx}/t"))),
                1 => {
                    let info = EndpointInfo::new(id)
                        .with_relay_url("https://relay.example.org/".parse::<RelayUrl>().unwrap())
                        .with_user_data(Some(format!("att{idx}").parse::<UserData>().unwrap()));
                    let recs: Vec<TxtRecordData> = info
                        .to_txt_strings()
                        .into_iter()
                        .map(|s| TxtRecordData::from(vec![s.into_bytes().into_boxed_slice()]))
                        .collect();
                    Ok(Box::new(recs.into_iter()) as BoxIter<TxtRecordData>)
                }
                _ => {
                    let recs = vec![TxtRecordData::from(vec![
                        format!("garbage{idx}").into_bytes().into_boxed_slice(),
                    ])];
                    Ok(Box::new(recs.into_iter()) as BoxIter<TxtRecordData>)
                }
            }
        })
    }

    fn clear_cache(&self) {}

    fn reset(&self) -> Box<dyn Resolver> {
        Box::new(self.clone())
    }
}

fn dns_tok(e: &DnsError) -> String {
    match e {
        DnsError::Timeout { .. } => "T".to_string(),
        DnsError::Resolve { source, .. } => format!("E:{source}"),
        DnsError::ResolveBoth { ipv4, ipv6, .. } => format!("B({}|{})", dns_tok(ipv4), dns_tok(ipv6)),
        other => format!("?{other}"),
    }
}

fn lookup_tok(e: &LookupError) -> String {
    match e {
        LookupError::LookupFailed { source, .. } => dns_tok(source),
        LookupError::ParseError { source, .. } => match source {
            ParseError::UnexpectedFormat { s, .. } => format!("P:{s}"),
            other => format!("P?{other}"),
        },
        other => format!("?{other}"),
    }
}

#[derive(Debug, Clone, PartialEq)]
enum Res {
    Ok(Vec<String>),
    Err(Vec<String>),
    Pending,
}

struct Observed {
    res: Res,
    /// return instant (or the horizon when pending), ns since the call
    end_ns: u128,
    calls: Vec<(u8, u128, usize)>,
}

/// tokio documents a maximum sleep of 2^36 - 2 ms (~2.2 years).  A sleep beyond that is
/// parked in the top level of its timer wheel; as soon as the (virtual) clock passes a
/// top-level slot boundary (2^30 ms) with such an entry present, the wheel of tokio 1.53
/// skips timers that are due earlier (observed: debug assertion `elapsed <= when` in
/// `wheel::remove`, then heap corruption).  That is an artefact of driving the paused clock
/// over weeks of virtual time and says nothing about iroh, so in a case that contains such a
/// delay the virtual clock is never advanced past 2^30 ms: later windows simply stay open.
const BEYOND_TOKIO_MAX: u64 = 1 << 35;
const CLOCK_CAP_MS: u64 = (1 << 30) - 1000;

fn horizon_ms(c: &Case) -> u64 {
    let maxfin = c.delays.iter().copied().filter(|d| *d <= HUGE).max().unwrap_or(0);
    let maxlat = c.s_a.iter().chain(c.s_b.iter()).map(|s| s.lat).max().unwrap_or(0);
    let h = maxfin / 10 * 12 + 24 + 2 * c.timeout_ms.max(maxlat) + 10_000;
    if c.delays.iter().any(|d| *d >= BEYOND_TOKIO_MAX) { h.min(CLOCK_CAP_MS) } else { h }
}

fn secret() -> SecretKey {
    SecretKey::from_bytes(&[7u8; 32])
}

/// Executes the real call for `c` in virtual time. Panics propagate to the caller.
fn execute(c: &Case) -> Observed {
    let rt = tokio::runtime::Builder::new_current_thread()
        .enable_time()
        .start_paused(true)
        .build()
        .expect("runtime");
    let id = secret().public();
    let log = Arc::new(Mutex::new(Log::default()));
    let (s4, s6, st) = match c.kind {
        K_V4 => (c.s_a.clone(), vec![], vec![]),
        K_V6 => (vec![], c.s_a.clone(), vec![]),
        K_BOTH => (c.s_a.clone(), c.s_b.clone(), vec![]),
        _ => (vec![], vec![], c.s_a.clone()),
    };
    let scripted = Scripted { log: log.clone(), s4: Arc::new(s4), s6: Arc::new(s6), st: Arc::new(st), id };
    let resolver = DnsResolver::custom(scripted);
    let timeout = Duration::from_millis(c.timeout_ms);
    let horizon = Duration::from_millis(horizon_ms(c));
    let delays = c.delays.clone();
    let kind = c.kind;
    let prefixed = c.prefixed;
    let (res, end_ns) = rt.block_on(async {
        let t0 = Instant::now();
        log.lock().unwrap().t0 = Some(t0);
        let call = async {
            let ok_ips = |it: &mut dyn Iterator<Item = IpAddr>| it.map(ip_tok).collect::<Vec<_>>();
            match kind {
                K_V4 => match resolver.lookup_ipv4_staggered("host.example", timeout, &delays).await {
                    Ok(mut it) => Res::Ok(ok_ips(&mut it)),
                    Err(e) => Res::Err(e.iter().map(dns_tok).collect()),
                },
                K_V6 => match resolver.lookup_ipv6_staggered("host.example", timeout, &delays).await {
                    Ok(mut it) => Res::Ok(ok_ips(&mut it)),
                    Err(e) => Res::Err(e.iter().map(dns_tok).collect()),
                },
                K_BOTH => match resolver.lookup_ipv4_ipv6_staggered("host.example", timeout, &delays).await {
                    Ok(mut it) => Res::Ok(ok_ips(&mut it)),
                    Err(e) => Res::Err(e.iter().map(dns_tok).collect()),
                },
                K_BY_ID => match resolver.lookup_endpoint_by_id_staggered(&id, "example.org.", &delays).await {
                    Ok(info) => Res::Ok(vec![info_tok(&info, id)]),
                    Err(e) => Res::Err(e.iter().map(lookup_tok).collect()),
                },
                _ => {
                    let name = if prefixed {
                        format!("_iroh.{}.example.org.", id.to_z32())
                    } else {
                        format!("{}.example.org.", id.to_z32())
                    };
                    match resolver.lookup_endpoint_by_domain_name_staggered(&name, &delays).await {
                        Ok(info) => Res::Ok(vec![info_tok(&info, id)]),
                        Err(e) => Res::Err(e.iter().map(lookup_tok).collect()),
                    }
                }
            }
        };
        match tokio::time::timeout(horizon, call).await {
            Ok(r) => (r, t0.elapsed().as_nanos()),
            Err(_) => (Res::Pending, t0.elapsed().as_nanos()),
        }
    });
    let calls = log.lock().unwrap().calls.clone();
    Observed { res, end_ns, calls }
}

fn info_tok(info: &EndpointInfo, id: EndpointId) -> String {
    format!(
        "{}|{}",
        if info.endpoint_id == id { "id-ok" } else { "id-bad" },
        info.user_data().map(|u| u.as_ref().to_string()).unwrap_or_default()
    )
}

const MS: u128 = 1_000_000;

struct Attempt {
    start_ns: u128,
    done_ns: u128,
    ok: bool,
    /// value tokens (success) or the error token (failure)
    ok_toks: Vec<String>,
    err_tok: String,
}

/// completion instant, success flag, success token, error token of one scripted lookup
fn one_lookup(start_ns: u128, step: Step, to_ms: u64, idx: usize, fam: &str, txt: bool) -> (u128, bool, Option<String>, String) {
    if step.lat > to_ms {
        return (start_ns + to_ms as u128 * MS, false, None, "T".into());
    }
    let done = start_ns + step.lat as u128 * MS;
    match (step.out, txt) {
        (0, _) => (done, false, None, format!("E:x{idx}/{fam}")),
        (1, false) => (done, true, Some(format!("a{idx}/{fam}")), String::new()),
        (1, true) => (done, true, Some(format!("id-ok|att{idx}")), String::new()),
        (_, false) => (done, true, None, String::new()),
        (_, true) => (done, false, None, format!("P:garbage{idx}")),
    }
}

fn judge(rep: &Report, c: &Case, o: &Observed) -> Option<(String, String)> {
    // ---- group resolver calls into attempts
    let mut attempts: Vec<Attempt> = Vec::new();
    let step_a = |i: usize| c.s_a.get(i).copied().unwrap_or(EXTRA);
    let step_b = |i: usize| c.s_b.get(i).copied().unwrap_or(EXTRA);
    match c.kind {
        K_BOTH => {
            let c4: Vec<_> = o.calls.iter().filter(|x| x.0 == 4).collect();
            let c6: Vec<_> = o.calls.iter().filter(|x| x.0 == 6).collect();
            if c4.len() != c6.len() || c4.iter().zip(c6.iter()).any(|(a, b)| a.1 != b.1) {
                rep.inconclusive("ipv4_ipv6-calls-not-paired");
                return None;
            }
            for (a, b) in c4.iter().zip(c6.iter()) {
                let (d4, ok4, t4, e4) = one_lookup(a.1, step_a(a.2), c.timeout_ms, a.2, "4", false);
                let (d6, ok6, t6, e6) = one_lookup(b.1, step_b(b.2), c.timeout_ms, b.2, "6", false);
                let mut toks = vec![];
                if ok4 {
                    toks.extend(t4);
                }
                if ok6 {
                    toks.extend(t6);
                }
                attempts.push(Attempt {
                    start_ns: a.1,
                    done_ns: d4.max(d6),
                    ok: ok4 || ok6,
                    ok_toks: toks,
                    err_tok: format!("B({e4}|{e6})"),
                });
            }
        }
        _ => {
            let (fam, name, txt) = match c.kind {
                K_V4 => (4u8, "4", false),
                K_V6 => (6u8, "6", false),
                _ => (0u8, "t", true),
            };
            if o.calls.iter().any(|x| x.0 != fam) {
                return Some(("C34:lookup-of-wrong-kind".into(), format!("calls {:?}", o.calls)));
            }
            for x in &o.calls {
                let (done, ok, tok, err) = one_lookup(x.1, step_a(x.2), c.timeout_ms, x.2, name, txt);
                attempts.push(Attempt { start_ns: x.1, done_ns: done, ok, ok_toks: tok.into_iter().collect(), err_tok: err });
            }
        }
    }
    let n_expected = c.delays.len() + 1;
    rep.count("attempts.started", attempts.len() as u64);

    // ---- windows: match sorted starts against sorted delays
    let mut delays: Vec<u64> = std::iter::once(0).chain(c.delays.iter().copied()).collect();
    delays.sort();
    let mut starts: Vec<u128> = attempts.iter().map(|a| a.start_ns).collect();
    starts.sort();
    let end = o.end_ns;
    let mut j = 0usize;
    let mut open_unstarted = 0u64;
    for &d in &delays {
        let lo10 = d as u128 * 8 * MS; // compare against 10 * a
        let hi10 = d as u128 * 12 * MS;
        if j < starts.len() {
            let a10 = starts[j] * 10;
            if a10 < lo10 {
                return Some((
                    "C34:attempt-started-before-window".into(),
                    format!("attempt at {} ns has no delay window left; next delay {d} ms; starts {starts:?} delays {delays:?}", starts[j]),
                ));
            } else if a10 <= hi10 {
                if d >= 10 {
                    let a = starts[j];
                    let dn = d as u128 * MS;
                    rep.count(if a < dn { "jitter.below" } else if a == dn { "jitter.exact" } else { "jitter.above" }, 1);
                }
                j += 1;
            } else {
                return Some((
                    "C34:delay-window-missed".into(),
                    format!("no attempt inside the window of delay {d} ms (next attempt at {} ns); starts {starts:?} delays {delays:?} end {end}", starts[j]),
                ));
            }
        } else if hi10 < end * 10 {
            return Some((
                "C34:delay-window-missed".into(),
                format!("window of delay {d} ms closed before the call ended at {end} ns without an attempt; starts {starts:?} delays {delays:?}"),
            ));
        } else {
            open_unstarted += 1;
        }
    }
    if j < starts.len() {
        return Some((
            "C34:more-attempts-than-delays".into(),
            format!("{} attempts for {} delays(+1); starts {starts:?}", starts.len(), c.delays.len()),
        ));
    }
    rep.count("attempts.not_started_window_still_open", open_unstarted);

    // ---- result
    let first_ok = attempts.iter().filter(|a| a.ok).map(|a| a.done_ns).min();
    match &o.res {
        Res::Ok(v) => {
            rep.count("calls.ok", 1);
            let Some(first) = first_ok else {
                return Some(("C34:ok-without-successful-attempt".into(), format!("returned {v:?} but no scripted attempt succeeded")));
            };
            let winners: Vec<&Attempt> = attempts.iter().filter(|a| a.ok && a.done_ns == first).collect();
            if !winners.iter().any(|a| &a.ok_toks == v) {
                let later = attempts.iter().any(|a| a.ok && &a.ok_toks == v);
                return Some((
                    if later { "C34:returned-later-success".into() } else { "C34:returned-unknown-value".into() },
                    format!("returned {v:?}; first success completes at {first} ns with {:?}", winners.iter().map(|a| &a.ok_toks).collect::<Vec<_>>()),
                ));
            }
            if end != first {
                return Some((
                    "C34:return-not-at-first-success".into(),
                    format!("first success completed at {first} ns, call returned at {end} ns"),
                ));
            }
            let idx = attempts.iter().position(|a| a.ok && a.done_ns == first).unwrap();
            if idx > 0 {
                rep.count("result.success_not_from_first_attempt", 1);
            }
            if attempts.iter().any(|a| !a.ok && a.done_ns <= first) {
                rep.count("result.success_after_failure", 1);
            }
            if attempts.iter().any(|a| a.ok && a.done_ns > first) {
                rep.count("result.later_success_discarded", 1);
            }
        }
        Res::Err(errs) => {
            rep.count("calls.err", 1);
            if let Some(first) = first_ok {
                if first <= end {
                    return Some(("C34:error-although-attempt-succeeded".into(), format!("error {errs:?}, but an attempt succeeded at {first} ns (end {end})")));
                }
            }
            if attempts.len() != n_expected {
                return Some((
                    "C34:error-before-all-attempts".into(),
                    format!("error after {} of {} attempts: {errs:?}", attempts.len(), n_expected),
                ));
            }
            let mut want: Vec<String> = attempts.iter().map(|a| a.err_tok.clone()).collect();
            let mut got = errs.clone();
            want.sort();
            got.sort();
            if want != got {
                return Some((
                    if got.len() != want.len() { "C34:error-count-differs".into() } else { "C34:error-set-differs".into() },
                    format!("expected errors {want:?}, got {got:?}"),
                ));
            }
            if errs.iter().any(|t| t.contains('T')) {
                rep.count("result.err_with_timeout", 1);
            }
        }
        Res::Pending => {
            rep.count("calls.pending_at_horizon", 1);
            if let Some(first) = first_ok {
                if first < end {
                    return Some(("C34:pending-after-success".into(), format!("an attempt succeeded at {first} ns but the call was still pending at {end} ns")));
                }
            }
            if open_unstarted == 0 {
                return Some((
                    "C34:pending-after-all-attempts".into(),
                    format!("all {} attempts done (last at {} ns) but the call was still pending at {end} ns", attempts.len(), attempts.iter().map(|a| a.done_ns).max().unwrap_or(0)),
                ));
            }
        }
    }
    None
}

fn run_case(rep: &Report, c: &Case) {
    rep.eval();
    let replay = serde_json::to_value(c).unwrap();
    for d in &c.delays {
        let class = match *d {
            0 => "zero",
            1 | 2 => "one_two",
            3..=9 => "3_to_9",
            10..=100_000 => "10_to_1e5",
            x if x <= HUGE => "1e5_to_2^34",
            _ => "huge",
        };
        rep.count(&format!("delays.{class}"), 1);
    }
    if c.delays.iter().any(|d| *d == 1 || *d == 2) {
        rep.count("cases.with_delay_1_or_2", 1);
    }
    if c.delays.iter().any(|d| *d > HUGE) {
        rep.count("cases.with_huge_delay", 1);
    }
    rep.count(&format!("kind.{}", KIND_NAMES[c.kind as usize]), 1);
    if std::env::var_os("VERIF_TRACE").is_some() {
        eprintln!("CASE {}", serde_json::to_string(c).unwrap());
    }
    let o = match catch(|| execute(c)) {
        Ok(o) => o,
        Err(p) => {
            rep.count("calls.panic", 1);
            let loc = p.rsplit(" @ ").next().unwrap_or("");
            rep.violation(&format!("C34:panic@{}", common::short_loc(loc)), p, replay);
            return;
        }
    };
    if let Some((sig, detail)) = judge(rep, c, &o) {
        rep.violation(&sig, format!("{detail}; result {:?}", o.res), replay);
        return;
    }
    if o.calls.len() >= 2 {
        rep.nontrivial(serde_json::to_string(c).unwrap().as_bytes());
        if rep.want_sample() && c.delays.len() >= 2 {
            rep.sample(json!({"case": c, "starts_ns": o.calls.iter().map(|x| x.1 as u64).collect::<Vec<_>>(), "end_ns": o.end_ns as u64, "result": format!("{:?}", o.res)}));
        }
    }
}

const DELAY_POOL: [u64; 22] = [
    0,
    1,
    2,
    3,
    4,
    5,
    7,
    10,
    15,
    50,
    200,
    300,
    1000,
    10_000,
    1 << 32,
    (1 << 34) + 1,
    u64::MAX / 41,
    u64::MAX / 40,
    u64::MAX / 40 + 1,
    u64::MAX / 2,
    u64::MAX - 1,
    u64::MAX,
];

fn gen_case(rng: &mut Rng) -> Case {
    let kind = rng.below(5) as u8;
    let n = match rng.below(8) {
        0 => 0,
        1 => 1,
        _ => rng.range(1, 6) as usize,
    };
    let mode = rng.below(4);
    let mut delays: Vec<u64> = (0..n)
        .map(|_| match mode {
            0 => *rng.pick(&DELAY_POOL),
            1 => rng.below(20),
            2 => rng.below(2000),
            _ => match rng.below(3) {
                0 => *rng.pick(&DELAY_POOL),
                1 => rng.below(12),
                _ => rng.below(5000),
            },
        })
        .collect();
    if rng.bool() {
        delays.sort();
    }
    let timeout_ms = if kind >= K_BY_ID { TXT_TIMEOUT_MS } else { *rng.pick(&[10u64, 100, 1000, 3000]) };
    let p_ok = *rng.pick(&[0u64, 1, 3, 5]); // out of 10
    let steps = |rng: &mut Rng| -> Vec<Step> {
        (0..n + 1)
            .map(|_| {
                let mut lat = match rng.below(7) {
                    0 => 0,
                    1 => rng.below(5),
                    2 => rng.below(100),
                    3 => rng.below(2 * timeout_ms),
                    4 => timeout_ms - 1,
                    5 => timeout_ms + 1,
                    _ => rng.below(20),
                };
                if lat == timeout_ms {
                    lat += 1; // the tie "answer exactly at the timeout" is left open by the statement
                }
                let out = if rng.below(10) < p_ok {
                    1
                } else if rng.below(6) == 0 {
                    2
                } else {
                    0
                };
                Step { lat, out }
            })
            .collect()
    };
    let s_a = steps(rng);
    let s_b = if kind == K_BOTH { steps(rng) } else { vec![] };
    Case { kind, delays, timeout_ms, s_a, s_b, prefixed: rng.bool() }
}

fn main() {
    let a = args();
    let rep = Report::new(
        "C34",
        "seeded random (function kind x delay list of length 0..6 from a boundary pool {0,1,2,3,..,2^32,u64::MAX/40±1,u64::MAX} and random small/medium values, sorted or not x per-attempt script of latency and success/failure/timeout); non-trivial = distinct case in which at least two attempts were actually started",
        &a,
    );
    if let Some(p) = &a.replay {
        let v: serde_json::Value = serde_json::from_str(&std::fs::read_to_string(p).unwrap()).unwrap();
        // a replay file holds one case; an array of cases is accepted as well (debugging aid)
        let cases: Vec<Case> = if v["replay"].is_array() {
            serde_json::from_value(v["replay"].clone()).expect("replay cases")
        } else {
            vec![serde_json::from_value(v["replay"].clone()).expect("replay case")]
        };
        for _ in 0..a.extra_u64("repeat", 1) {
            for c in &cases {
                run_case(&rep, c);
            }
        }
        rep.finish();
        return;
    }
    rep.assumption("the jitter is drawn by rand::random inside iroh-dns and is not seeded; the oracle accepts any jitter within the stated window");
    rep.assumption("delays above 2^34 ms are not waited for: for them only 'no panic' and 'not started early' are observed");
    let threads = a.extra_u64("threads", a.pick(4u64, 16));
    let per_thread = a.pick(40_000u64, 1_200_000);
    std::thread::scope(|s| {
        for shard in 0..threads {
            let rep = &rep;
            let seed = a.seed;
            s.spawn(move || {
                let mut rng = Rng::derive(seed, "C34", shard);
                // directed cases first: every single pool delay alone and in front of a success
                if shard == 0 {
                    for kind in 0..5u8 {
                        for &d in &DELAY_POOL {
                            let to = if kind >= K_BY_ID { TXT_TIMEOUT_MS } else { 1000 };
                            for first_ok in [0u8, 1] {
                                let c = Case {
                                    kind,
                                    delays: vec![d],
                                    timeout_ms: to,
                                    s_a: vec![Step { lat: 20, out: first_ok }, Step { lat: 1, out: 1 }],
                                    s_b: vec![Step { lat: 30, out: 0 }, Step { lat: 2, out: 0 }],
                                    prefixed: true,
                                };
                                run_case(rep, &c);
                            }
                        }
                    }
                }
                for _ in 0..per_thread {
                    let c = gen_case(&mut rng);
                    run_case(rep, &c);
                }
            });
        }
    });
    rep.require("calls.ok", 100);
    rep.require("calls.err", 100);
    rep.require("attempts.started", 1000);
    rep.require("jitter.below", 10);
    rep.require("jitter.above", 10);
    rep.require("result.success_after_failure", 50);
    rep.require("result.success_not_from_first_attempt", 50);
    rep.require("cases.with_delay_1_or_2", 50);
    rep.require("cases.with_huge_delay", 20);
    rep.require("calls.pending_at_horizon", 5);
    rep.finish();
}
